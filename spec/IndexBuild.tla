----------------------------- MODULE IndexBuild -----------------------------
(* How the search index is built (db.rs:196-214, 253-268) and how a lookup picks its
   answer (db.rs:229-250), as far as the *order of documents* is concerned.

   tantivy's IndexWriter hands added documents to `Threads` indexing workers; each worker
   appends the documents it takes to its own segment; commit publishes the segments.  A
   search collects (score, address) pairs and TopDocs(1) keeps the best score, ties won by
   the lowest address = (position of the segment among the published ones, position in the
   segment).  Scores are computed from searcher-wide statistics and do not depend on the
   segment layout, so for a query q the set T(q) of best-scored documents is a function of
   the data; which member of T(q) wins is decided by the layout.

   Property C14: the winner is a function of T(q) only -- the same for every build.       *)
EXTENDS Naturals, Sequences, FiniteSets, TLC

CONSTANTS NDocs,     \* documents, numbered in shipped order
          Threads,   \* indexing workers ({1} = writer_with_num_threads(1, ..))
          MaxRebuilds \* how often the index is rebuilt in place (stored hash differs: delete_all_documents + add again)

Docs == 1..NDocs

VARIABLES next,      \* next document (shipped order) still to be handed out
          seg,       \* seg[t] = documents worker t has put into its current segment
          published, \* <<>> before the first commit; afterwards the live segments in searcher order
          building,  \* a writer is adding documents (between delete_all and commit)
          rebuilds
ibvars == <<next, seg, published, building, rebuilds>>

IBInit == next = 1 /\ seg = [t \in Threads |-> <<>>] /\ published = <<>> /\ building = TRUE /\ rebuilds = 0

\* a worker takes the next document from the channel
Take(t) == /\ next <= NDocs /\ building
           /\ seg' = [seg EXCEPT ![t] = Append(@, next)] /\ next' = next + 1
           /\ UNCHANGED <<published, building, rebuilds>>

Perms(S) == {f \in [1..Cardinality(S) -> S] : \A i, j \in 1..Cardinality(S) : i # j => f[i] # f[j]}
\* commit: all non-empty segments become visible, in an order the writer does not promise
\* (the segments of an earlier build are wholly deleted by delete_all_documents: they contribute nothing)
Commit == /\ next > NDocs /\ building
          /\ LET ne == {t \in Threads : seg[t] # <<>>} IN
             \E order \in Perms(ne) : published' = [i \in 1..Cardinality(ne) |-> seg[order[i]]]
          /\ building' = FALSE
          /\ UNCHANGED <<next, seg, rebuilds>>
\* the stored hash no longer matches: the same index is emptied and filled again by a new writer
Rebuild == /\ ~building /\ rebuilds < MaxRebuilds
           /\ building' = TRUE /\ next' = 1 /\ seg' = [t \in Threads |-> <<>>] /\ rebuilds' = rebuilds + 1
           /\ UNCHANGED published             \* readers keep the old segments until the new commit

IBNext == (\E t \in Threads : Take(t)) \/ Commit \/ Rebuild
IBSpec == IBInit /\ [][IBNext]_ibvars

RECURSIVE Flat(_)
Flat(ss) == IF ss = <<>> THEN <<>> ELSE Head(ss) \o Flat(Tail(ss))
\* the document a lookup returns when T is the set of best-scored documents
Winner(pub, T) == LET f == Flat(pub) IN
                  f[CHOOSE i \in 1..Len(f) : f[i] \in T /\ \A j \in 1..(i - 1) : f[j] \notin T]
Min(T) == CHOOSE x \in T : \A y \in T : x <= y

\* C14 at design level: for every tie set the winner is the same in every reachable
\* committed state (here: the earliest tied document in shipped order)
Deterministic == published # <<>> => \A T \in (SUBSET Docs \ {{}}) : Winner(published, T) = Min(T)
\* with one worker the searcher sees exactly the shipped order
ShippedOrder == published # <<>> => Flat(published) = [i \in 1..NDocs |-> i]
=============================================================================
