SPECIFICATION TSpec
CONSTRAINT Progress
POSTCONDITION Report
CHECK_DEADLOCK FALSE
