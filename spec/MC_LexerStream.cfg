SPECIFICATION SSpec
INVARIANT Progress
INVARIANT KindOK
CHECK_DEADLOCK TRUE
