---------------------------- MODULE Trace_Literal ----------------------------
(* Implementation -> specification for decimal literals (C07).

   Every line: a string `src` (characters) and what the real code made of it through three
   entry points -- the library's number parser (lib), the string as a query (q), the string
   followed by a percent sign as a query (pct) -- each [ok, neg, n, d] with numerator and
   denominator as base-10^4 limbs.
   For a well-formed literal (Literal.WellFormed) all three must succeed and equal
   Denote(src), resp. Denote(src) / 100, in F_p for every prime that does not divide the
   recorded denominator; and the lexer must take the whole literal as one NUMBER token.
   For anything else nothing is required; agreement of acceptance with the transcribed reader
   (Literal.FromStr) is reported as drift only.                                            *)
EXTENDS Eval, Json, IOUtils, TLCExt

Rec == ndJsonDeserialize(IOEnv.TRACE)

Same(x, v) == v.ok /\ SameAs(x, v.neg, v.n, v.d)
Check(r) ==
  IF ~WellFormed(r.src) THEN [wf |-> FALSE, problems |-> IF FromStr(r.src).ok # r.lib.ok THEN <<"acceptance-differs-from-FromStr">> ELSE <<>>]
  ELSE LET x == LitR(Denote(r.src))
           toks == Lex(r.src)
           p0 == IF Len(toks) = 1 /\ toks[1].k = "NUMBER" THEN <<>> ELSE <<"extent">>
           p1 == IF Same(x, r.lib) THEN <<>> ELSE <<"library">>
           p2 == IF Same(x, r.q) THEN <<>> ELSE <<"query">>
           p3 == IF Same(RDiv(x, RInt(100)), r.pct) THEN <<>> ELSE <<"percent">>
           p4 == IF FromStr(r.src).ok /\ FromStr(r.src).v = Denote(r.src) THEN <<>> ELSE <<"spec-reader">> IN
       [wf |-> TRUE, problems |-> p0 \o p1 \o p2 \o p3 \o p4]

VARIABLES l, nwf
Init == l = 1 /\ nwf = 0
Next == /\ l <= Len(Rec) /\ l' = l + 1
        /\ LET c == Check(Rec[l]) IN
           /\ nwf' = nwf + (IF c.wf THEN 1 ELSE 0)
           /\ (c.problems = <<>> \/ PrintT(<<"MISMATCH", ToJson([l |-> l, id |-> Rec[l].id, problems |-> c.problems])>>))
Done == l = Len(Rec) + 1 => PrintT(<<"SUMMARY", ToJson([records |-> Len(Rec), judged |-> nwf, decided |-> nwf])>>)
=============================================================================
