INIT Init
NEXT Next
CONSTANTS
  MaxLen = 3
  Names <- McNames
  Syms <- McSyms
INVARIANT Accepts
INVARIANT RejectsDropped
INVARIANT RejectsAlwaysBlank
INVARIANT RejectsPluralOne
INVARIANT Examples
INVARIANT RejectsMovedUnderline
INVARIANT DiagExample
CHECK_DEADLOCK FALSE
