INIT Init
NEXT Next
CONSTANTS
  MaxLen = 3
INVARIANT Accepts
INVARIANT RejectsDropped
INVARIANT RejectsAlwaysBlank
INVARIANT RejectsPluralOne
CHECK_DEADLOCK FALSE
