INIT Init
NEXT Next
CONSTANTS MaxLen = 7
 Alphabet = {"0","1","9","+","-",".","e","E"}
 Emit = FALSE
INVARIANT Exact
CHECK_DEADLOCK FALSE
