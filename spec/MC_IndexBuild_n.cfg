\* several indexing workers: Deterministic must FAIL (this is the defect of the pinned tree)
SPECIFICATION IBSpec
CONSTANT MaxRebuilds = 2
CONSTANTS NDocs = 4
 Threads = {1, 2, 3}
INVARIANT Deterministic
CHECK_DEADLOCK FALSE
