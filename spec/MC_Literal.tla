----------------------------- MODULE MC_Literal -----------------------------
(* Every string over Alphabet up to MaxLen, grown one character at a time and cut as soon
   as it stops being a viable prefix of a literal.  Exact: the transcribed reader equals the
   denotation on every well-formed literal.  With Emit, every well-formed literal is printed
   with its denotation (digit sequence + exponent) for replay into the real parser.       *)
EXTENDS Literal, Lexer, Json
CONSTANTS MaxLen, Alphabet, Emit
VARIABLE s
Init == s = <<>>
Next == /\ Len(s) < MaxLen
        /\ \E c \in Alphabet : s' = Append(s, c) /\ Viable(s')
Exact == WellFormed(s) => (FromStr(s).ok /\ FromStr(s).v = Denote(s))
\* the lexer takes every well-formed literal as exactly one NUMBER token (so a query sees the same text)
LexOne == WellFormed(s) => LET t == Lex(s) IN Len(t) = 1 /\ t[1].k = "NUMBER"
EmitInv == (Emit /\ WellFormed(s)) =>
             PrintT(<<"VEC", ToJson([src |-> s, neg |-> Denote(s).neg, ds |-> Denote(s).ds, e |-> Denote(s).e])>>)
=============================================================================
