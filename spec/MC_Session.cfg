SPECIFICATION Spec
CONSTANTS
  LookupCache = FALSE
  MemoSkips = FALSE
  MaxEvals = 3
INVARIANT SameAnswer
INVARIANT DescribeExact
CHECK_DEADLOCK FALSE
