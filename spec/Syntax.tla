------------------------------- MODULE Syntax -------------------------------
(* The syntax dump of the command line (`any --syntax`, src/bin/any.rs -> Parsed::emit ->
   syntree::print::print_with_source), stated on the tree Parser.tla builds from the tokens
   Lexer.tla produces:

     one line per tree element, in document order, indented by two blanks per level;
     a node:   KIND@start..end                 (byte offsets; a node without leaves is empty at the
                                                offset where it was inserted, and one without children is
                                                followed by "" like a token with empty text)
     a token:  KIND@start..end "text"          (the text as Rust's `{:?}` shows it)

   `src`  the characters of the input (names as in Lexer.tla)
   `dbg`  for each character, how `{:?}` spells it inside a string (taken from the standard library, not
          from the code under test): itself, or an escape such as \" \\ \t \n \u{a0}
   The dump is a second, independent witness of C12 through the real binary: it is the whole input, cut
   at the token boundaries, under the parser's node structure.                                         *)
EXTENDS Lexer, Parser

RECURSIVE Blanks(_)
Blanks(n) == IF n = 0 THEN "" ELSE "  " \o Blanks(n - 1)
RECURSIVE Quoted(_, _, _)
Quoted(dbg, a, b) == IF a >= b THEN "" ELSE dbg[a] \o Quoted(dbg, a + 1, b)
Span(s, e) == "@" \o ToString(s) \o ".." \o ToString(e)

\* walk: [lines, off] -- the lines of the elements xs[j..] at `depth`, and the byte offset behind them
RECURSIVE WalkSeq(_, _, _, _, _, _, _)
WalkSeq(xs, j, depth, off, ts, src, dbg) ==
  IF j > Len(xs) THEN [lines |-> <<>>, off |-> off]
  ELSE LET x == xs[j] IN
       IF x.leaf THEN
          LET t == ts[x.i]
              e == off + Bytes(src, t.a, t.b)
              line == Blanks(depth) \o x.k \o Span(off, e) \o " \"" \o Quoted(dbg, t.a, t.b) \o "\""
              rest == WalkSeq(xs, j + 1, depth, e, ts, src, dbg) IN
          [lines |-> <<line>> \o rest.lines, off |-> rest.off]
       ELSE
          LET inner == WalkSeq(x.ch, 1, depth + 1, off, ts, src, dbg)
              \* a node without children is shown like a token with empty text (syntree tells them apart by has_children)
              line == Blanks(depth) \o x.k \o Span(off, inner.off) \o (IF x.ch = <<>> THEN " \"\"" ELSE "")
              rest == WalkSeq(xs, j + 1, depth, inner.off, ts, src, dbg) IN
          [lines |-> <<line>> \o inner.lines \o rest.lines, off |-> rest.off]

DumpLines(src, dbg) ==
  LET ts == Lex(src)
      ks == TLCEval([i \in 1..Len(ts) |-> ts[i].k])
      p == ParseRoot(ks) IN
  WalkSeq(p.sib, 1, 0, 0, ts, src, dbg).lines
=============================================================================
