------------------------------ MODULE MC_Syntax ------------------------------
(* Syntax.tla on every concrete string up to length N over one representative per character class:
     DumpCoversInput   the walk that produces the dump ends at the last byte of the input and prints one
                       line per tree element: the dump attributes every byte to exactly one token line
   With Emit every string is printed for replay into the real binary (`any --syntax`).              *)
EXTENDS Syntax, Json
CONSTANTS N, Emit
Alphabet == {"1", ".", "e", "+", "-", "t", "o", "a", " ", "*", "(", ")", "{", "}", "%", ",", "/", "^",
             "EACUTE", "EMSP", "DEG", "'"}
VARIABLE s
Init == s = <<>>
Next == Len(s) < N /\ \E c \in Alphabet : s' = Append(s, c)
Spec == Init /\ [][Next]_s
RECURSIVE Count(_, _)
Count(xs, j) == IF j > Len(xs) THEN 0 ELSE 1 + Count(xs[j].ch, 1) + Count(xs, j + 1)
DumpCoversInput ==
  LET ts == Lex(s)
      ks == TLCEval([i \in 1..Len(ts) |-> ts[i].k])
      p == ParseRoot(ks)
      w == WalkSeq(p.sib, 1, 0, 0, ts, s, s) IN
  /\ w.off = Bytes(s, 1, Len(s) + 1)
  /\ Len(w.lines) = Count(p.sib, 1)
EmitInv == (Emit /\ Len(s) >= 1) => PrintT(<<"VEC", ToJson([src |-> s])>>)
=============================================================================
