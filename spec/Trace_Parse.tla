----------------------------- MODULE Trace_Parse -----------------------------
(* Implementation -> specification for the lexer and the parser (C12, C06, C07's extent).

   Every line of the trace is one input string handled by the real lexer and parser:
     src   its characters (names as in Lexer.tla)
     toks  the real lexer's tokens  <<kind, length in bytes>>
     tree  the real parser's tree: [k, leaf, i (n-th token), len, ch]
   TLC runs Lexer.tla and Parser.tla on `src` and reports, per line:
     tiling    the real tokens do not tile the input on character boundaries, or one is empty   (C12)
     leaves    the leaves of the real tree are not exactly the real tokens in order              (C12)
     lexdiff   the real tokens tile the input but differ from Lexer.tla's (lengths or kinds)     (drift;
               C07 when a literal's extent is concerned)
     treediff  the real tree differs from the tree Parser.tla builds                             (drift)
     refines   the documented grammar reads the tokens as expressions, and the evaluator's walk of
               the *real* tree would compute something else                                      (C06)  *)
EXTENDS Lexer, Parser, Json, IOUtils, TLCExt

Rec == ndJsonDeserialize(IOEnv.TRACE)

RealToks(r) == TLCEval([i \in 1..Len(r.toks) |-> [k |-> r.toks[i][1], len |-> r.toks[i][2]]])
RECURSIVE Conv(_)
Conv(x) == IF x.leaf THEN Leaf(x.k, x.i) ELSE Node(x.k, TLCEval([j \in 1..Len(x.ch) |-> Conv(x.ch[j])]))
RealSib(r) == TLCEval([j \in 1..Len(r.tree) |-> Conv(r.tree[j])])
RECURSIVE LeafRecs(_), LeafRecsSeq(_, _)
LeafRecs(x) == IF x.leaf THEN <<[k |-> x.k, len |-> x.len]>> ELSE LeafRecsSeq(x.ch, 1)
LeafRecsSeq(ch, j) == IF j > Len(ch) THEN <<>> ELSE LeafRecs(ch[j]) \o LeafRecsSeq(ch, j + 1)

Check(r) ==
  LET real == RealToks(r)
      spec == LexBytes(r.src)
      kinds == TLCEval([i \in 1..Len(real) |-> real[i].k])
      sib == RealSib(r)
      g == Grammar(AsToks(kinds))
      p1 == IF ~r.toks_ok THEN <<"lexer-panic">> ELSE IF ~Tiles(r.src, real) THEN <<"tiling">> ELSE <<>>
      p2 == IF r.toks_ok /\ Tiles(r.src, real) /\ real # spec THEN <<"lexdiff">> ELSE <<>>
      \* a tree nested deeper than the JSON reader can take is given by its leaves only (r.deep, r.leaves)
      flat == TLCEval([i \in 1..Len(r.leaves) |-> [k |-> r.leaves[i][1], len |-> r.leaves[i][2]]])
      p3 == IF ~r.tree_ok THEN <<"parser-failed">>
            ELSE IF r.deep THEN (IF flat # real THEN <<"leaves">> ELSE <<>>)
            ELSE IF LeafRecsSeq(r.tree, 1) # real \/ LeavesSeq(sib, 1) # [i \in 1..Len(real) |-> i] THEN <<"leaves">> ELSE <<>>
      p4 == IF r.tree_ok /\ ~r.deep /\ r.toks_ok /\ sib # ParseRoot(kinds).sib THEN <<"treediff">> ELSE <<>>
      p5 == IF r.tree_ok /\ ~r.deep /\ r.toks_ok /\ g.ok /\ TreeResults(sib) # g.asts THEN <<"refines">> ELSE <<>> IN
  [problems |-> p1 \o p2 \o p3 \o p4 \o p5, wf |-> g.ok /\ Len(g.asts) >= 1, ntoks |-> Len(real)]

VARIABLES l, nwf
Init == l = 1 /\ nwf = 0
Next == /\ l <= Len(Rec) /\ l' = l + 1
        /\ LET c == Check(Rec[l]) IN
           /\ nwf' = nwf + (IF c.wf THEN 1 ELSE 0)
           /\ (c.problems = <<>> \/ PrintT(<<"MISMATCH", ToJson([l |-> l, id |-> Rec[l].id, problems |-> c.problems])>>))
Done == l = Len(Rec) + 1 => PrintT(<<"SUMMARY", ToJson([records |-> Len(Rec), judged |-> nwf, decided |-> nwf])>>)
=============================================================================
