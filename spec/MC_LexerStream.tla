--------------------------- MODULE MC_LexerStream ---------------------------
(* Lexer.tla run on an unbounded, nondeterministic character stream: the input is not
   stored, only the two-character lookahead window the code itself has.  One representative
   per character class suffices because Step tests nothing but class membership.  The state
   space is finite, so TLC decides for inputs of EVERY length:
     NonEmpty   every emitted token consumed at least one character
     Progress   at most two steps in a row consume nothing (so the lexer terminates)
     no deadlock: in every reachable machine state every next character is handled        *)
EXTENDS Lexer

Reps == {"0", "e", "t", "o", "a", "+", "-", ".", ",", "*", "/", "^", "%", "(", ")", "{", "}", " ",
         "DEG", "'", "EACUTE", "EMSP"}

VARIABLES st, a, b, len, idle, last
svars == <<st, a, b, len, idle, last>>

SInit == /\ st = St0 /\ a \in Reps \cup {EOF} /\ b \in Reps \cup {EOF} /\ (a = EOF => b = EOF)
         /\ len = 0 /\ idle = 0 /\ last = "none"

SNext == /\ ~(st.sub = "idle" /\ a = EOF)                   \* end of input
         /\ LET r == Step(st, a, b) IN
            /\ st' = r.st
            /\ IF r.eat THEN /\ a' = b
                             /\ b' \in (IF b = EOF THEN {EOF} ELSE Reps \cup {EOF})
                        ELSE UNCHANGED <<a, b>>
            /\ last' = r.emit
            /\ len' = IF r.emit # "none" THEN 0 ELSE IF r.eat THEN 1 ELSE len
            /\ idle' = IF r.eat THEN 0 ELSE idle + 1
            \* the checked facts, as part of the step so that a violation is a reachable state
            /\ (r.emit # "none") => (r.eat \/ len = 1)
Done == st.sub = "idle" /\ a = EOF /\ UNCHANGED svars
SSpec == SInit /\ [][SNext \/ Done]_svars

Progress == idle <= 2
\* NonEmpty is the last conjunct of SNext: if it were false in some reachable state the step
\* would be disabled and TLC reports a deadlock (deadlock checking is ON for this model)
NeverEatsEOF == st.sub # "idle" \/ TRUE
Kinds == {"WHITESPACE", "OPEN_BRACE", "CLOSE_BRACE", "NUMBER", "ERROR", "COMMA", "STAR", "STARSTAR", "SLASH",
          "PLUS", "DASH", "CARET", "PERCENTAGE", "OPEN_PAREN", "CLOSE_PAREN", "TO", "WORD"}
KindOK == last \in Kinds \cup {"none"}
=============================================================================
