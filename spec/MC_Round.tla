------------------------------ MODULE MC_Round ------------------------------
(* Rounding functions (C10) on a grid of rationals x = a / b and digit counts n.

   Declarative: floor / ceil / round / round(x, n) by their defining inequalities
     f = floor(x)      <=>  f in Z  /\  f <= x < f + 1
     c = ceil(x)       <=>  c in Z  /\  c - 1 < x <= c
     r = round(x)      <=>  r in Z  /\  |x - r| <= 1/2  /\  (|x - r| = 1/2 => |r| > |x|)
     y = round(x, n)   <=>  y * 10^n = round(x * 10^n)
   Operational: what the code does -- src/eval/builtin.rs::round with its three branches on top of
   truncating integer division as in the rational library (trunc, then adjust by one), and
   ModArith.QFloor / QCeil / QRound, which Eval.tla and Trace_Lang.tla use as the oracle for
   recorded applications.  All three layers must agree on the whole grid.
   As-pinned constant TruncFloor: floor and ceil by truncation (the defect repaired in /repo). *)
EXTENDS Integers, TLC, ModArith
CONSTANTS MaxA, Dens, MaxN, TruncFloor
Abs2(x) == IF x < 0 THEN 0 - x ELSE x
TruncDiv(a, b) == IF a >= 0 THEN a \div b ELSE 0 - ((0 - a) \div b)          \* Rust's `/` on integers (b > 0)
RECURSIVE P10(_)
P10(n) == IF n = 0 THEN 1 ELSE 10 * P10(n - 1)

\* ---- declarative, on x = a / b with b > 0
IsFloor(a, b, f) == f * b <= a /\ a < (f + 1) * b
IsCeil(a, b, c) == (c - 1) * b < a /\ a <= c * b
\* |a/b - r| <= 1/2  <=>  |2a - 2rb| <= b ; tie <=> |2a - 2rb| = b
IsRound(a, b, r) == /\ Abs2(2 * a - 2 * r * b) <= b
                    /\ (Abs2(2 * a - 2 * r * b) = b => Abs2(r) * b > Abs2(a))
\* y = c / e is round(x, n):  y * 10^n is the integer round(x * 10^n)
IsRoundN(a, b, n, c, e) ==
  IF n >= 0 THEN (IF e = P10(n) THEN IsRound(a * P10(n), b, c)                      \* c / 10^n
                  ELSE e = 1 /\ IsRound(a * P10(n), b, c * P10(n)))              \* an integer
  ELSE /\ c % (e * P10(0 - n)) = 0
       /\ IsRound(a, b * P10(0 - n), c \div (e * P10(0 - n)))

\* ---- operational: the rational library's floor / ceil / round on top of truncation
OpTrunc(a, b) == TruncDiv(a, b)
OpFloor(a, b) == IF TruncFloor THEN OpTrunc(a, b)
                 ELSE IF a < 0 THEN TruncDiv(a - b + 1, b) ELSE TruncDiv(a, b)
OpCeil(a, b) == IF TruncFloor THEN (IF a % b = 0 THEN OpTrunc(a, b) ELSE OpTrunc(a, b) + 1)
                ELSE IF a < 0 THEN TruncDiv(a, b) ELSE TruncDiv(a + b - 1, b)
OpRound(a, b) ==       \* fract, |fract| >= 1/2 ? trunc +- 1 : trunc
  LET t == OpTrunc(a, b)
      fr == Abs2(a - t * b)                \* numerator of |fract|, denominator b
      half == IF b % 2 = 0 THEN fr >= b \div 2 ELSE fr >= (b \div 2) + 1 IN
  IF half THEN (IF a >= 0 THEN t + 1 ELSE t - 1) ELSE t
\* builtin::round(first, second): result as <<numer, denom>> (not reduced)
OpRoundN(a, b, n) ==
  IF n >= 0 /\ b = 1 THEN <<a, 1>>
  ELSE IF n = 0 THEN <<OpRound(a, b), 1>>
  ELSE IF n > 0 THEN <<OpRound(a * P10(n), b), P10(n)>>
  ELSE <<OpRound(a, b * P10(0 - n)) * P10(0 - n), 1>>

VARIABLES a, b, n
Init == a \in (0 - MaxA)..MaxA /\ b \in Dens /\ n \in (0 - MaxN)..MaxN
Next == UNCHANGED <<a, b, n>>
FloorOk == IsFloor(a, b, OpFloor(a, b))
CeilOk == IsCeil(a, b, OpCeil(a, b))
RoundOk == IsRound(a, b, OpRound(a, b))
RoundNOk == LET y == OpRoundN(a, b, n) IN IsRoundN(a, b, n, y[1], y[2])
\* the oracle functions of ModArith agree with the definitions wherever they are defined
QLayer == LET q == Norm(a, b) IN
          Known(q) => /\ IsFloor(a, b, QFloor(q)) /\ IsCeil(a, b, QCeil(q)) /\ IsRound(a, b, QRound(q))
=============================================================================
