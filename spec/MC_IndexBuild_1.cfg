SPECIFICATION IBSpec
CONSTANT MaxRebuilds = 2
CONSTANTS NDocs = 5
 Threads = {1}
INVARIANT Deterministic
INVARIANT ShippedOrder
CHECK_DEADLOCK FALSE
