------------------------------- MODULE Session -------------------------------
(* Queries against one database instance (C18).

   After it has become ready a database is read only: a query's answer and the descriptions it
   reports are a function of the query alone.  The model has a handful of phrases and documents,
   queries that are sequences of phrases (the phrases they look up, in evaluation order), and one
   action: evaluate a query with descriptions on or off.  Every evaluation is logged.
     SameAnswer     every evaluation of a query returns what the query returns in isolation
     DescribeExact  with descriptions on, the descriptions are exactly the looked-up phrases in
                    evaluation order, each with the document that was found; with descriptions off, none
   Two deliberate deviations (constants) show that the specification discriminates; each is the
   shape of a plausible "optimisation":
     LookupCache    the database remembers lookups under a normalised (case-folded) key
     MemoSkips      a phrase already resolved within the same query is not described again        *)
EXTENDS Naturals, Sequences, FiniteSets, TLC
CONSTANTS LookupCache, MemoSkips, MaxEvals
Phrases == {"p", "P", "q"}
Fold(x) == IF x = "P" THEN "p" ELSE x
\* the search itself: a function of the phrase ("p" and "P" are different searches)
Search(x) == CASE x = "p" -> "doc1" [] x = "P" -> "doc2" [] x = "q" -> "doc3"
Queries == {<<"p">>, <<"P">>, <<"q", "p">>, <<"p", "p">>, <<"P", "q", "P">>}
Isolated(q) == [i \in 1..Len(q) |-> Search(q[i])]
VARIABLES cache, log
Init == cache = <<>> /\ log = <<>>
\* evaluate the phrases left to right: [docs, descs, cache]
RECURSIVE Run(_, _, _, _, _, _)
Run(q, i, c, docs, descs, describe) ==
  IF i > Len(q) THEN [docs |-> docs, descs |-> descs, cache |-> c]
  ELSE LET k == Fold(q[i])
           hit == LookupCache /\ k \in DOMAIN c
           d == IF hit THEN c[k] ELSE Search(q[i])
           c2 == IF LookupCache /\ ~hit THEN [x \in DOMAIN c \cup {k} |-> IF x = k THEN d ELSE c[x]] ELSE c
           again == MemoSkips /\ \E j \in 1..(i - 1) : q[j] = q[i]
           descs2 == IF describe /\ ~again THEN Append(descs, <<q[i], d>>) ELSE descs IN
       Run(q, i + 1, c2, Append(docs, d), descs2, describe)
Eval(q, describe) == /\ Len(log) < MaxEvals
                     /\ LET r == Run(q, 1, cache, <<>>, <<>>, describe) IN
                        /\ cache' = r.cache
                        /\ log' = Append(log, [q |-> q, describe |-> describe, docs |-> r.docs, descs |-> r.descs])
Next == \E q \in Queries, d \in BOOLEAN : Eval(q, d)
Spec == Init /\ [][Next]_<<cache, log>>
SameAnswer == \A i \in 1..Len(log) : log[i].docs = Isolated(log[i].q)
DescribeExact == \A i \in 1..Len(log) :
                   IF log[i].describe THEN log[i].descs = [j \in 1..Len(log[i].q) |-> <<log[i].q[j], Search(log[i].q[j])>>]
                   ELSE log[i].descs = <<>>
=============================================================================
