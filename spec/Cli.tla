--------------------------------- MODULE Cli ---------------------------------
(* What the `any` program prints for the results the library computed (C19, src/bin/any.rs).

   A result is [k |-> "val", num, den (decimal strings), decimal (the library's own 12/12 rendering),
   u (the unit as <<[key, power, prefix]>>)] or [k |-> "err", msg, msg1 (msg up to its first line break)].
     Line(r, exact)   the one line printed for a value
     Matches(..)      standard output consists, in order, of one Line per value and one diagnostic
                      block per error (first line "error: <msg>", ended by an empty line); then, if
                      constants were described, the heading and one line per description
   The rendering of a decimal (C08) and the spelling of each single unit are taken from the
   library; this module and UnitDisplay.tla own their composition (blank, plural, powers, order).                                                                       *)
EXTENDS UnitDisplay
CONSTANTS Names,     \* unit key -> [sg, pl]: how the tool spells each single unit
          Syms       \* [dot, sup, micro]: the non-ASCII symbols of unit display
IsOne(r) == r.num = "1" /\ r.den = "1"
ValueText(r, exact) == IF exact THEN (IF r.den = "1" THEN r.num ELSE r.num \o "/" \o r.den) ELSE r.decimal
\* r.u: the unit of the result as <<[key, power, prefix]>>
CompoundOfList(us) == TLCEval([k \in {us[i][1] : i \in 1..Len(us)} |->
                        LET i == CHOOSE j \in 1..Len(us) : us[j][1] = k IN [pw |-> us[i][2], px |-> us[i][3]]])
Line(r, exact) == LET c == CompoundOfList(r.u) IN
                  ValueText(r, exact) \o (IF HasNumerator(c) THEN " " ELSE "") \o UnitText(c, ~IsOne(r), Names, Syms)
Heading == "# Description of constants used (--describe):"
DescLine(d) == "\"" \o d.phrase \o "\" => " \o d.description
                 \o (IF ~d.has_source THEN "" ELSE IF d.url # "" THEN " (" \o d.source \o ") <" \o d.url \o ">" ELSE "(" \o d.source \o ")")
RECURSIVE SkipBlock(_, _)
SkipBlock(lines, i) == IF i > Len(lines) THEN i ELSE IF lines[i] = "" THEN i + 1 ELSE SkipBlock(lines, i + 1)
\* position behind the output of results[j..], or 0 if the lines do not match
RECURSIVE MatchResults(_, _, _, _, _)
MatchResults(lines, i, results, j, exact) ==
  IF j > Len(results) THEN i
  ELSE IF i > Len(lines) THEN 0
  ELSE IF results[j].k = "val" THEN (IF lines[i] = Line(results[j], exact) THEN MatchResults(lines, i + 1, results, j + 1, exact) ELSE 0)
  \* (a message that echoes a line break of the query continues on the next line: its first line is compared, msg1)
  ELSE IF lines[i] = "error: " \o results[j].msg1 THEN MatchResults(lines, SkipBlock(lines, i + 1), results, j + 1, exact) ELSE 0
RECURSIVE MatchDescs(_, _, _, _)
MatchDescs(lines, i, descs, j) == IF j > Len(descs) THEN i
                                  ELSE IF i > Len(lines) \/ lines[i] # DescLine(descs[j]) THEN 0
                                  ELSE MatchDescs(lines, i + 1, descs, j + 1)
Matches(lines, results, descs, exact) ==
  LET i == MatchResults(lines, 1, results, 1, exact) IN
  IF i = 0 THEN "results"
  ELSE IF descs = <<>> THEN (IF i = Len(lines) + 1 THEN "" ELSE "trailing-output")
  ELSE IF i > Len(lines) \/ lines[i] # Heading THEN "description-heading"
  ELSE LET k == MatchDescs(lines, i + 1, descs, 1) IN
       IF k = 0 THEN "descriptions" ELSE IF k = Len(lines) + 1 THEN "" ELSE "trailing-output"
=============================================================================
