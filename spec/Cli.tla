--------------------------------- MODULE Cli ---------------------------------
(* What the `any` program prints for the results the library computed (C19, src/bin/any.rs).

   A result is [k |-> "val", num, den (decimal strings), decimal (the library's own 12/12 rendering),
   u (the unit as <<[key, power, prefix]>>)] or [k |-> "err", msg, msg1 (msg up to its first line break)].
     Line(r, exact)   the one line printed for a value
     Matches(..)      standard output consists, in order, of one Line per value and one diagnostic
                      block per error (DiagBlock: message, place, the query, the range underlined, an empty line;
                      of a query that is not one line of printable ASCII only the first line "error: <msg>"
                      is prescribed and the block is read up to its empty line); then, if
                      constants were described, the heading and one line per description
   The query is the program's arguments joined by one blank each (`any 1 + 2` = `any "1 + 2"`): the recorder also hands
   queries over in pieces (mode "words") and the same output is prescribed.
   The rendering of a decimal (C08) and the spelling of each single unit are taken from the
   library; this module and UnitDisplay.tla own their composition (blank, plural, powers, order).                                                                       *)
EXTENDS UnitDisplay
CONSTANTS Names,     \* unit key -> [sg, pl]: how the tool spells each single unit
          Syms       \* [dot, sup, micro]: the non-ASCII symbols of unit display; [corner, bar, caret]: of a diagnostic block
IsOne(r) == r.num = "1" /\ r.den = "1"
ValueText(r, exact) == IF exact THEN (IF r.den = "1" THEN r.num ELSE r.num \o "/" \o r.den) ELSE r.decimal
\* r.u: the unit of the result as <<[key, power, prefix]>>
CompoundOfList(us) == TLCEval([k \in {us[i][1] : i \in 1..Len(us)} |->
                        LET i == CHOOSE j \in 1..Len(us) : us[j][1] = k IN [pw |-> us[i][2], px |-> us[i][3]]])
Line(r, exact) == LET c == CompoundOfList(r.u) IN
                  ValueText(r, exact) \o (IF HasNumerator(c) THEN " " ELSE "") \o UnitText(c, ~IsOne(r), Names, Syms)
Heading == "# Description of constants used (--describe):"
DescLine(d) == "\"" \o d.phrase \o "\" => " \o d.description
                 \o (IF ~d.has_source THEN "" ELSE IF d.url # "" THEN " (" \o d.source \o ") <" \o d.url \o ">" ELSE "(" \o d.source \o ")")
RECURSIVE SkipBlock(_, _)
SkipBlock(lines, i) == IF i > Len(lines) THEN i ELSE IF lines[i] = "" THEN i + 1 ELSE SkipBlock(lines, i + 1)
\* The diagnostic block of one error (any.rs: one primary label at the error's range, carrying the message again), for a
\* query that is one line of printable ASCII (bytes = characters = columns): the message; where it is (`<in>:1:<column of
\* the first byte of the range>`); the line of the query; under it one mark per byte of the range, exactly under those
\* bytes (an empty range is marked by one), and the message; an empty line.  Syms.corner, Syms.bar, Syms.caret are the
\* renderer's frame and mark, measured from the tool like the spelling of units -- their *placement* is stated here.
RECURSIVE Rep(_, _)
Rep(s, n) == IF n <= 0 THEN "" ELSE s \o Rep(s, n - 1)
DiagBlock(text, r) ==
  << "error: " \o r.msg,
     "  " \o Syms.corner \o " <in>:1:" \o ToString(r.s + 1),
     "  " \o Syms.bar,
     "1 " \o Syms.bar \o " " \o text,
     "  " \o Syms.bar \o " " \o Rep(" ", r.s) \o Rep(Syms.caret, IF r.e > r.s THEN r.e - r.s ELSE 1) \o " " \o r.msg,
     "" >>
\* position behind the output of results[j..]; 0 if the lines do not match; -1 if the block of an error is not DiagBlock
\* (text: the query; plain: it is one line of printable ASCII -- otherwise only the first line of a block is prescribed)
RECURSIVE MatchResults(_, _, _, _, _, _, _)
MatchResults(lines, i, results, j, exact, text, plain) ==
  IF j > Len(results) THEN i
  ELSE IF i > Len(lines) THEN 0
  ELSE IF results[j].k = "val" THEN (IF lines[i] = Line(results[j], exact) THEN MatchResults(lines, i + 1, results, j + 1, exact, text, plain) ELSE 0)
  \* (a message that echoes a line break of the query continues on the next line: its first line is compared, msg1)
  ELSE IF lines[i] # "error: " \o results[j].msg1 THEN 0
  ELSE IF ~plain THEN MatchResults(lines, SkipBlock(lines, i + 1), results, j + 1, exact, text, plain)
  ELSE IF i + 5 <= Len(lines) /\ SubSeq(lines, i, i + 5) = DiagBlock(text, results[j]) THEN MatchResults(lines, i + 6, results, j + 1, exact, text, plain)
  ELSE -1
RECURSIVE MatchDescs(_, _, _, _)
MatchDescs(lines, i, descs, j) == IF j > Len(descs) THEN i
                                  ELSE IF i > Len(lines) \/ lines[i] # DescLine(descs[j]) THEN 0
                                  ELSE MatchDescs(lines, i + 1, descs, j + 1)
Matches(lines, results, descs, exact, text, plain) ==
  LET i == MatchResults(lines, 1, results, 1, exact, text, plain) IN
  IF i = 0 THEN "results"
  ELSE IF i = -1 THEN "diagnostic"
  ELSE IF descs = <<>> THEN (IF i = Len(lines) + 1 THEN "" ELSE "trailing-output")
  ELSE IF i > Len(lines) \/ lines[i] # Heading THEN "description-heading"
  ELSE LET k == MatchDescs(lines, i + 1, descs, 1) IN
       IF k = 0 THEN "descriptions" ELSE IF k = Len(lines) + 1 THEN "" ELSE "trailing-output"
=============================================================================
