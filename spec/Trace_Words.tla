----------------------------- MODULE Trace_Words -----------------------------
(* Implementation -> specification for unit words and unit definitions (C05).

   Lines of kind "word": a word w (characters), whether the tool accepted `1 <w>` and, if so, the
   units it read: <<[key, power, prefix]>>.
     misread        the tool accepts the word with a meaning that is none of its readings
                    (field bt: the word is in a backtracking situation of the generated lexer)
     name-rejected  a documented unit name, typed on its own, is not accepted with its own meaning
     acceptance     (drift) the tool accepts / rejects differently from the longest-match procedure
   Lines of kind "def": a unit key, a power pw and the value n/d the tool gives for
   `1 <name>^pw to <SI base units>^pw` with the base dimensions of the *standards table*:
     dims           the conversion is refused: the unit does not have the standard dimensions
     scale          the value is none of the standard meanings of the name (UAltFacR), nor an accepted
                    rounding (ACCEPT, decided from the standards table by vocab/units.py)             *)
EXTENDS UnitWords, Json, IOUtils, TLCExt

Rec == ndJsonDeserialize(IOEnv.TRACE)
Accept == IF "ACCEPT" \in DOMAIN IOEnv THEN JsonDeserialize(IOEnv.ACCEPT) ELSE <<>>

\* a reading as the map the tool would hold: unit -> [pw (number of occurrences), px]; Bad if a unit occurs
\* with two different powers of ten (the tool cannot hold that)
Occ(r, u) == {i \in 1..Len(r) : r[i].u = u}
Representable(r) == \A i, j \in 1..Len(r) : r[i].u = r[j].u => r[i].e = r[j].e
AsMap(r) == TLCEval([u \in {r[i].u : i \in 1..Len(r)} |-> [pw |-> Cardinality(Occ(r, u)), px |-> r[CHOOSE i \in Occ(r, u) : TRUE].e]])
ToolMap(us) == TLCEval([k \in {us[i][1] : i \in 1..Len(us)} |->
                  LET i == CHOOSE j \in 1..Len(us) : us[j][1] = k IN [pw |-> us[i][2], px |-> us[i][3]]])

CheckWord(r) ==
  LET rs == Readings(r.w)
      p == ParseWord(r.w)
      m == ToolMap(r.units)
      p1 == IF r.ok /\ ~(\E x \in rs : Representable(x) /\ AsMap(x) = m) THEN <<"misread">> ELSE <<>>
      p2 == IF r.kind = "name" /\ ~(r.ok /\ DOMAIN m = {r.u} /\ m[r.u].pw = 1
                                    /\ m[r.u].px = (CHOOSE nm \in UNames : nm.w = r.w /\ nm.u = r.u).bias)
            THEN <<"name-rejected">> ELSE <<>>
      \* (a reading that names one unit under two prefixes is refused later, by the unit map)
      p3 == IF r.ok # (p.ok /\ Representable(p.r)) THEN <<"acceptance">> ELSE <<>> IN
  [problems |-> p1 \o p2 \o p3, bt |-> p.bt, nread |-> Cardinality(rs)]

CheckDef(r) ==
  IF ~r.ok THEN [problems |-> <<"dims">>, bt |-> FALSE, nread |-> 0]
  ELSE LET alts == UAltFacR(r.key) \cup (IF r.key \in DOMAIN Accept THEN {RDiv(RLimbs(Accept[r.key].n), RLimbs(Accept[r.key].d))} ELSE {})
           \* r.pw: the power the unit was given in the query (1, -1, 2): the value is the factor to that power
           good == \E f \in alts : SameAs(RPow(f, r.pw), FALSE, r.n, r.d) IN
       [problems |-> IF good THEN <<>> ELSE <<"scale">>, bt |-> FALSE, nread |-> 0]

Check(r) == IF r.kind = "def" THEN CheckDef(r) ELSE CheckWord(r)

VARIABLES l
Init == l = 1
Next == /\ l <= Len(Rec) /\ l' = l + 1
        /\ LET c == Check(Rec[l]) IN
           (c.problems = <<>> \/ PrintT(<<"MISMATCH", ToJson([l |-> l, id |-> Rec[l].id, problems |-> c.problems, bt |-> c.bt])>>))
Done == l = Len(Rec) + 1 => PrintT(<<"SUMMARY", ToJson([records |-> Len(Rec), judged |-> Len(Rec), decided |-> Len(Rec)])>>)
=============================================================================
