---------------------------- MODULE Trace_Outcome ----------------------------
(* Implementation -> specification for totality (C11).

   Every line: an input (characters), the outcome of evaluating it with the real library under
   catch_unwind -- a panic message or a list of results, each a value (with the flag "it could be
   displayed") or an error with a message and a byte range -- plus the tokens of the real lexer.
   The pipeline of the specification is total: Lexer.tla has no deadlock for any input
   (MC_LexerStream), Parser.tla builds a tree for every token string (MC_Parser: never stuck).  So
   for every input the only outcomes the specification admits are
        a sequence of  Value(displayable)  |  Error(msg # "", 0 <= a <= b <= |input|, a and b on
        character boundaries)
   and this module checks the recorded outcome against that type:
     panic      the evaluation panicked
     range      an error's range does not lie inside the input on character boundaries
     message    an error without a message
     display    a value that cannot be displayed
     count      the number of results differs from the number of root-level nodes of the specification's
                own tree for the same tokens (drift: the tool and Parser.tla disagree on the tree)        *)
EXTENDS Lexer, Parser, Json, IOUtils, TLCExt
Rec == ndJsonDeserialize(IOEnv.TRACE)
Check(r) ==
  LET bs == Boundaries(r.src, 1, 0)
      n == Bytes(r.src, 1, Len(r.src) + 1)
      p1 == IF r.panic # "" THEN <<"panic">> ELSE <<>>
      p2 == IF \E i \in 1..Len(r.res) : r.res[i].k = "err" /\ ~(r.res[i].a \in bs /\ r.res[i].b \in bs /\ r.res[i].a <= r.res[i].b /\ r.res[i].b <= n)
            THEN <<"range">> ELSE <<>>
      p3 == IF \E i \in 1..Len(r.res) : r.res[i].k = "err" /\ r.res[i].msg = "" THEN <<"message">> ELSE <<>>
      p4 == IF \E i \in 1..Len(r.shown) : ~r.shown[i] THEN <<"display">> ELSE <<>>
      ks == TLCEval([i \in 1..Len(r.toks) |-> r.toks[i][1]])
      p5 == IF r.panic = "" /\ r.toks_ok /\ Len(NodesOf(ParseRoot(ks).sib)) # Len(r.res) THEN <<"count">> ELSE <<>> IN
  p1 \o p2 \o p3 \o p4 \o p5
VARIABLES l
Init == l = 1
Next == /\ l <= Len(Rec) /\ l' = l + 1
        /\ LET c == Check(Rec[l]) IN
           (c = <<>> \/ PrintT(<<"MISMATCH", ToJson([l |-> l, id |-> Rec[l].id, problems |-> c])>>))
Done == l = Len(Rec) + 1 => PrintT(<<"SUMMARY", ToJson([records |-> Len(Rec), judged |-> Len(Rec), decided |-> Len(Rec)])>>)
=============================================================================
