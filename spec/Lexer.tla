------------------------------- MODULE Lexer -------------------------------
(* The lexer of the query language (src/syntax/lexer.rs) as a character-level machine.

   One `Step` per loop iteration of the code: it looks at the next two characters (a, b)
   -- exactly the lookahead `peek2` has -- and either consumes `a`, or finishes the current
   token, or both.  The same `Step` is used
     (i)  on concrete strings (`Lex`), to predict the tokens of a given input, and
     (ii) on an unbounded nondeterministic character stream (MC_LexerStream.tla), where the
          input is not stored and TLC proves NonEmpty / Progress / no deadlock for inputs of
          every length.

   Characters are one-character strings; characters outside ASCII are named:
     DEG  U+00B0 (a word character)      MU    U+03BC (not a word character)
     NBSP U+00A0, EMSP U+2003 (white)    EACUTE, CJK, EMOJI (other, 2/3/4 bytes)
   `Step` depends on a character only through the class tests below.                     *)
EXTENDS Naturals, Sequences, FiniteSets, TLC

Digit == {"0", "1", "2", "3", "4", "5", "6", "7", "8", "9"}
Lower == {"a","b","c","d","e","f","g","h","i","j","k","l","m","n","o","p","q","r","s","t","u","v","w","x","y","z"}
Upper == {"A","B","C","D","E","F","G","H","I","J","K","L","M","N","O","P","Q","R","S","T","U","V","W","X","Y","Z"}
\* char::is_whitespace on the characters the harness ever sends
White == {" ", "\t", "\n", "\r", "NBSP", "EMSP", "VT", "FF"}
WordCh == Lower \cup Upper \cup Digit \cup {"DEG", "'"}
Sign == {"+", "-"}
ExpMark == {"e", "E"}
EOF == "EOF"

ByteLen(c) == CASE c \in {"DEG", "MU", "OMEGA", "NBSP", "EACUTE"} -> 2
                [] c \in {"EMSP", "CJK"} -> 3
                [] c = "EMOJI" -> 4
                [] OTHER -> 1

\* ---------------------------------------------------------------------------------------
\* machine state
\*   mode : "normal" | "escape"            (Lexer::escape)
\*   sub  : which loop of the code is running
\*   dot  : consume_number's `dot` flag        lead : how the number started
\*   cnt  : consume_number's count is > 0      w    : word text so far is "t" / "to" / other
Idle(mode) == [mode |-> mode, sub |-> "idle", dot |-> FALSE, lead |-> "", cnt |-> FALSE, w |-> ""]
St0 == Idle("normal")

R(st, eat, emit) == [st |-> st, eat |-> eat, emit |-> emit]

NumEnd(st) ==    \* what the token is called when consume_number returns
  IF st.cnt \/ st.lead = "digit" THEN "NUMBER"
  ELSE CASE st.lead = "dot" -> "ERROR" [] st.lead = "plus" -> "PLUS" [] st.lead = "dash" -> "DASH"

StepNormalIdle(st, a, b) ==
  CASE a \in White -> R([st EXCEPT !.sub = "ws"], TRUE, "none")
    [] a = "{" -> R(Idle("escape"), TRUE, "OPEN_BRACE")
    [] a = "." -> R([st EXCEPT !.sub = "num", !.dot = TRUE, !.lead = "dot", !.cnt = FALSE], TRUE, "none")
    [] a = "," -> R(st, TRUE, "COMMA")
    [] a \in Digit -> R([st EXCEPT !.sub = "num", !.dot = FALSE, !.lead = "digit", !.cnt = FALSE], FALSE, "none")
    [] a = "*" -> R([st EXCEPT !.sub = "star"], TRUE, "none")
    [] a = "/" -> R(st, TRUE, "SLASH")
    [] a = "+" -> R([st EXCEPT !.sub = "num", !.dot = FALSE, !.lead = "plus", !.cnt = FALSE], TRUE, "none")
    [] a = "-" -> R([st EXCEPT !.sub = "num", !.dot = FALSE, !.lead = "dash", !.cnt = FALSE], TRUE, "none")
    [] a = "^" -> R(st, TRUE, "CARET")
    [] a = "%" -> R(st, TRUE, "PERCENTAGE")
    [] a = "(" -> R(st, TRUE, "OPEN_PAREN")
    [] a = ")" -> R(st, TRUE, "CLOSE_PAREN")
    [] a \in (WordCh \ Digit) -> R([st EXCEPT !.sub = "word", !.w = IF a = "t" THEN "t" ELSE "x"], TRUE, "none")
    [] OTHER -> R(st, TRUE, "ERROR")

\* consume_number's outer loop: `while let Some((a, b)) = self.peek2()`
StepNum(st, a, b) ==
  IF a \in Digit THEN R([st EXCEPT !.cnt = TRUE], TRUE, "none")
  ELSE IF a = "." /\ ~st.dot THEN R([st EXCEPT !.cnt = TRUE, !.dot = TRUE], TRUE, "none")
  ELSE IF a \in ExpMark /\ b \in (Sign \cup Digit) THEN R([st EXCEPT !.cnt = TRUE, !.sub = "expsign"], TRUE, "none")
  ELSE R(Idle(st.mode), FALSE, NumEnd(st))

Step(st, a, b) ==
  IF st.mode = "escape" /\ st.sub = "idle" THEN
     \* next_escape: white space, `}`, or -- consume_escaped_word's loop condition being what
     \* it is -- a one-character ERROR token for anything else
     CASE a \in White -> R([st EXCEPT !.sub = "ws"], TRUE, "none")
       [] a = "}" -> R(Idle("normal"), TRUE, "CLOSE_BRACE")
       [] OTHER -> R(st, TRUE, "ERROR")
  ELSE CASE st.sub = "idle" -> StepNormalIdle(st, a, b)
    [] st.sub = "ws" -> IF a \in White THEN R(st, TRUE, "none") ELSE R(Idle(st.mode), FALSE, "WHITESPACE")
    [] st.sub = "star" -> IF a = "*" THEN R(Idle(st.mode), TRUE, "STARSTAR") ELSE R(Idle(st.mode), FALSE, "STAR")
    [] st.sub = "word" ->
         IF a \in WordCh
         THEN R([st EXCEPT !.w = IF st.w = "t" /\ a = "o" THEN "to" ELSE "x"], TRUE, "none")
         ELSE R(Idle(st.mode), FALSE, IF st.w = "to" THEN "TO" ELSE "WORD")
    [] st.sub = "num" -> StepNum(st, a, b)
    [] st.sub = "expsign" -> IF a \in Sign THEN R([st EXCEPT !.sub = "expdig"], TRUE, "none")
                             ELSE R([st EXCEPT !.sub = "expdig"], FALSE, "none")
    [] st.sub = "expdig" -> IF a \in Digit THEN R(st, TRUE, "none")
                            ELSE R([st EXCEPT !.sub = "num"], FALSE, "none")

\* ---------------------------------------------------------------------------------------
\* (i) concrete strings
At(s, i) == IF i <= Len(s) THEN s[i] ELSE EOF
Tok(k, a, b) == [k |-> k, a |-> a, b |-> b]       \* characters [a, b) of the input
RECURSIVE LexRun(_, _, _, _, _)
LexRun(s, i, st, a0, toks) ==
  IF i > Len(s) /\ st.sub = "idle" THEN toks
  ELSE LET r  == Step(st, At(s, i), At(s, i + 1))
           i2 == IF r.eat THEN i + 1 ELSE i
       IN IF r.emit = "none" THEN LexRun(s, i2, r.st, a0, toks)
          ELSE LexRun(s, i2, r.st, i2, Append(toks, Tok(r.emit, a0, i2)))
Lex(s) == LexRun(s, 1, St0, 1, <<>>)

RECURSIVE Bytes(_, _, _)
Bytes(s, a, b) == IF a >= b THEN 0 ELSE ByteLen(s[a]) + Bytes(s, a + 1, b)
\* token list as the implementation reports it: kind and length in bytes
LexBytes(s) == LET ts == Lex(s) IN TLCEval([i \in 1..Len(ts) |-> [k |-> ts[i].k, len |-> Bytes(s, ts[i].a, ts[i].b)]])

\* C12 (lexer half), stated on any token list `ts` = <<[k, len]>> claimed for the string s:
\* every token non-empty, lengths add up to the whole input, every boundary a character boundary
RECURSIVE Boundaries(_, _, _)
Boundaries(s, i, off) == IF i > Len(s) THEN {off} ELSE {off} \cup Boundaries(s, i + 1, off + ByteLen(s[i]))
RECURSIVE Ends(_, _, _)
Ends(ts, i, off) == IF i > Len(ts) THEN {} ELSE {off + ts[i].len} \cup Ends(ts, i + 1, off + ts[i].len)
RECURSIVE SumLen(_, _)
SumLen(ts, i) == IF i > Len(ts) THEN 0 ELSE ts[i].len + SumLen(ts, i + 1)
Tiles(s, ts) == /\ \A i \in 1..Len(ts) : ts[i].len >= 1
                /\ SumLen(ts, 1) = Bytes(s, 1, Len(s) + 1)
                /\ Ends(ts, 1, 0) \subseteq Boundaries(s, 1, 0)
=============================================================================
