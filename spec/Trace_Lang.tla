----------------------------- MODULE Trace_Lang -----------------------------
(* Implementation -> specification for the language pipeline (C01, C02, C03, C04, C06, C10,
   C13 and the value half of others).

   Every line of the trace (ndjson, env TRACE) is one query evaluated by the real library:
     src    the characters of the query (names as in Lexer.tla)
     res    one entry per result: [k |-> "val", neg, n, d (base-10^4 limbs), u |-> <<[key, pw, px]>>]
            or [k |-> "err"]
     apps   every operator / function application the evaluator performed (hook H-eval):
            [op, args |-> <<val>>, out |-> val or err]
     panic  "" or the panic message
   TLC runs the reference pipeline Lexer -> Grammar -> Eval on `src` and on every recorded
   application, and compares:
     value   impl value * Scale(impl unit) = spec SI value   (in F_p, every non-blind prime)
     dims    Dims(impl unit) = spec dimension vector
     unit    impl unit = spec unit, where the language determines it
     error   impl error <=> spec dz / err
   A line the reference grammar does not accept, or an outcome "ood", is not judged.
   Mismatches are printed as <<"MISMATCH", line, what, detail>>; the line counter advances
   regardless so that every line is examined.                                            *)
EXTENDS Eval, Json, IOUtils, TLCExt

Rec == ndJsonDeserialize(IOEnv.TRACE)

\* scale source "observed": what the tool itself exhibits for 1 <unit> in SI base units
Obs == IF "OBSERVED" \in DOMAIN IOEnv THEN JsonDeserialize(IOEnv.OBSERVED) ELSE <<>>
ObsFacR(u) == IF u \in DOMAIN Obs THEN RDiv(RLimbs(Obs[u].n), RLimbs(Obs[u].d)) ELSE UStdFacR(u)

\* ---- recorded values
CompoundOf(us) == TLCEval([k \in {us[i][1] : i \in 1..Len(us)} |->
                     LET i == CHOOSE j \in 1..Len(us) : us[j][1] = k IN [pw |-> us[i][2], px |-> us[i][3]]])
KnownKeys(us) == \A i \in 1..Len(us) : us[i][1] \in UKeys
LimbsSmall(ls) == Len(ls) = 1 \/ (Len(ls) = 2 /\ ls[1] <= 2)
LimbsVal(ls) == IF Len(ls) = 1 THEN ls[1] ELSE ls[1] * 10000 + ls[2]
RecR(v) == LET x == RDiv(RLimbs(v.n), RLimbs(v.d)) IN IF v.neg THEN RNeg(x) ELSE x
RecQ(v) == IF LimbsSmall(v.n) /\ LimbsSmall(v.d)
           THEN Norm(IF v.neg THEN 0 - LimbsVal(v.n) ELSE LimbsVal(v.n), LimbsVal(v.d)) ELSE Unknown
\* is the recorded denominator blind for prime k?
DenBlind(v) == {k \in PIdx : RLimbs(v.d)[k] = 0}
\* a recorded value as a specification value (its unit is what the tool displayed)
AsSpec(v) == LET u == CompoundOf(v.u) IN Val(RMul(RecR(v), Scale(u)), Dims(u), u, RecQ(v)).v

\* ---- comparison of one outcome; returns "" or a reason
SameSI(spec, v) == LET u == CompoundOf(v.u)
                       lhs == RMul(RLimbs(v.n), Scale(u))
                       n == IF v.neg THEN RNeg(lhs) ELSE lhs
                       d == RLimbs(v.d) IN
                   \A k \in PIdx : d[k] = 0 \/ n[k] = Blind \/ spec.si[k] = Blind \/ n[k] = (spec.si[k] * d[k]) % Primes[k]
Compare(spec, got) ==
  IF spec.k = "ood" THEN "ood"
  ELSE IF spec.k \in {"dz", "err"} THEN (IF got.k = "err" THEN "" ELSE IF spec.k = "dz" THEN "divzero-gave-value" ELSE "error-expected")
  ELSE IF got.k = "err" THEN (IF spec.v.opt THEN "" ELSE "unexpected-error")
  ELSE IF ~KnownKeys(got.u) THEN "unknown-unit"
  ELSE LET u == CompoundOf(got.u) IN
       IF ~NoZero(u) THEN "zero-power-in-unit"
       ELSE IF Dims(u) # spec.v.dims THEN "dims"
       ELSE IF ~SameSI(spec.v, got) THEN "value"
       ELSE IF ~spec.v.free /\ spec.v.u # u THEN "unit"
       ELSE ""

\* ---- one recorded application
ArgsOk(a) == \A i \in 1..Len(a.args) : KnownKeys(a.args[i].u)
SpecApp(a) ==
  IF ~ArgsOk(a) THEN Ood
  ELSE IF ~Temperature /\ \E i \in 1..Len(a.args) : HasOffset(CompoundOf(a.args[i].u)) THEN Ood
  ELSE IF a.op \in {"+", "-", "*", "/", "^"} THEN Apply(a.op, AsSpec(a.args[1]), AsSpec(a.args[2]))
  ELSE IF a.op = "to" THEN Cast(AsSpec(a.args[1]), CompoundOf(a.args[2].u))
  ELSE Builtin(a.op, TLCEval([i \in 1..Len(a.args) |-> AsSpec(a.args[i])]))

RECURSIVE AppProblems(_, _, _)
AppProblems(apps, i, acc) ==
  IF i > Len(apps) THEN acc
  ELSE LET c == Compare(SpecApp(apps[i]), apps[i].out) IN
       AppProblems(apps, i + 1, IF c \in {"", "ood"} THEN acc ELSE Append(acc, <<"app", i, apps[i].op, c>>))

RECURSIVE ResProblems(_, _, _, _)
ResProblems(outs, res, i, acc) ==
  IF i > Len(outs) THEN acc
  ELSE LET c == Compare(outs[i], res[i]) IN
       ResProblems(outs, res, i + 1, IF c \in {"", "ood"} THEN acc ELSE Append(acc, <<"result", i, c>>))

Judged(r, e) == e.wf /\ Len(e.outs) = Len(r.res)
Check(r) ==
  LET e == Results(r.src)
      p1 == IF r.panic # "" THEN <<<<"panic", r.panic>>>> ELSE <<>>
      p2 == IF ~e.wf THEN <<>>
            ELSE IF Len(e.outs) # Len(r.res) THEN (IF r.panic = "" THEN <<<<"count", Len(e.outs), Len(r.res)>>>> ELSE <<>>)
            ELSE ResProblems(e.outs, r.res, 1, <<>>)
      p3 == AppProblems(r.apps, 1, <<>>) IN
  [problems |-> p1 \o p2 \o p3, judged |-> Judged(r, e),
   decided |-> IF Judged(r, e) THEN Cardinality({i \in 1..Len(e.outs) : e.outs[i].k # "ood"}) ELSE 0]

VARIABLES l, njudged, ndecided
Init == l = 1 /\ njudged = 0 /\ ndecided = 0
Next == /\ l <= Len(Rec) /\ l' = l + 1
        /\ LET c == Check(Rec[l]) IN
           /\ njudged' = njudged + (IF c.judged THEN 1 ELSE 0)
           /\ ndecided' = ndecided + c.decided
           /\ (c.problems = <<>> \/ PrintT(<<"MISMATCH", ToJson([l |-> l, id |-> Rec[l].id, problems |-> c.problems])>>))
Done == l = Len(Rec) + 1 => PrintT(<<"SUMMARY", ToJson([records |-> Len(Rec), judged |-> njudged, decided |-> ndecided])>>)
=============================================================================
