----------------------------- MODULE MC_Display -----------------------------
(* Grid model of the decimal formatter (C08): every value (-1)^neg * n/d * 10^k with n <= MaxN,
   d <= MaxD, k in Ks, every digit limit in Limits and exponent threshold in ELimits.  The
   configuration is chosen in Init, (n, d) in Next (so that the workers share the grid).
   Faithful must hold for the text Render produces; Paths counts are reported through
   coverage.  With Emit, every case is printed for replay into Rational::display.          *)
EXTENDS Display, Json
CONSTANTS MaxN, MaxD, Ks, Limits, ELimits, Emit, Stride, Phase
KsSmall == {0, 3, -3, 7, -7}
KsFull == {0, 1, -1, 3, -3, 7, -7, 12, -12, 25, -25, 40, -40}
LimitsSmall == {1, 2, 6, 12}
LimitsFull == 1..20
ELimitsSmall == {1, 3, 8, 12}
ELimitsFull == 1..15
VARIABLES cfg, val
Init == /\ cfg \in [neg : BOOLEAN, k : Ks, limit : Limits, el : ELimits]
        /\ val = <<0, 1>>
Next == /\ val = <<0, 1>>
        /\ \E n \in 1..MaxN, d \in 1..MaxD : /\ (n + d) % Stride = Phase     \* thinning for the quick tier
                                             /\ val' = <<n, d>>
        /\ UNCHANGED cfg
Spec == Init /\ [][Next]_<<cfg, val>>
Text == Render(cfg.neg /\ val[1] # 0, val[1], val[2], cfg.k, cfg.limit, cfg.el)
FaithfulInv == Faithful(cfg.neg /\ val[1] # 0, val[1], val[2], cfg.k, Text)
EmitInv == Emit => PrintT(<<"VEC", ToJson([neg |-> cfg.neg /\ val[1] # 0, n |-> val[1], d |-> val[2], k |-> cfg.k,
                                           limit |-> cfg.limit, el |-> cfg.el, path |-> Path(val[1], val[2], cfg.k, cfg.el)])>>)
=============================================================================
