---------------------------- MODULE Trace_Describe ----------------------------
(* Implementation -> specification for C18 (Session.tla bound to the real library).

   Every line is one evaluation of query number q on a database: describe flag, session ("shared":
   one database for all, "alone": a database of its own), results, the lookups the hook saw
   <<phrase, shipped position of the best document>>, the descriptions reported <<phrase, shipped
   position of the described constant>>.
     answer-differs        the results differ from the first evaluation of the same query in the history
                           (other describe flag, other position in the session, other database)
     descriptions-when-off descriptions although they were not asked for
     descriptions-missing  with descriptions on, the described phrases are not exactly (as a bag) the
                           phrases the documented grammar makes the query look up
     wrong-constant        the descriptions are not exactly the lookups that found a document (phrase and constant, in order)
     descriptions-differ   two evaluations of the same query describe different constants
     order                 (drift) the descriptions are not in the specification's evaluation order     *)
EXTENDS Eval, Parser, Json, IOUtils, TLCExt
Rec == ndJsonDeserialize(IOEnv.TRACE)
NQ == CHOOSE n \in 0..100000 : ToString(n) = IOEnv.NQUERIES
RECURSIVE JoinStr(_, _)
JoinStr(cs, i) == IF i > Len(cs) THEN "" ELSE cs[i] \o JoinStr(cs, i + 1)
\* the phrases a query looks up, in the evaluator's order (right operand first)
RECURSIVE PhrasesOf(_, _, _), PhrasesOfArgs(_, _, _, _)
PhrasesOfArgs(s, toks, args, i) == IF i > Len(args) THEN <<>> ELSE PhrasesOf(s, toks, args[i]) \o PhrasesOfArgs(s, toks, args, i + 1)
PhrasesOf(s, toks, a) ==
  CASE a.t = "phrase" -> <<JoinStr(SubSeq(s, toks[a.u[1]].a, toks[a.u[2] - 1].b - 1), 1)>>
    [] a.t = "bin" -> PhrasesOf(s, toks, a.r) \o PhrasesOf(s, toks, a.l)
    [] a.t = "cast" -> PhrasesOf(s, toks, a.l)
    [] a.t = "call" -> PhrasesOfArgs(s, toks, a.args, 1)
    [] OTHER -> <<>>
\* which phrases: from the documented grammar; in which order: from the tree walk of the evaluator (Parser.LookupOrder)
Expected(src) == LET toks == Lex(src)
                     g == Grammar(toks)
                     sib == NodesOf(ParseRoot(TokKinds(toks)).sib)
                     rs == IF Len(sib) = 1 THEN LookupOrder(sib[1]) ELSE <<>> IN
                 IF g.ok /\ Len(g.asts) = 1
                 THEN [ok |-> TRUE, ps |-> PhrasesOf(src, toks, g.asts[1]),
                       ordered |-> [i \in 1..Len(rs) |-> JoinStr(SubSeq(src, toks[rs[i][1]].a, toks[rs[i][2] - 1].b - 1), 1)]]
                 ELSE [ok |-> FALSE, ps |-> <<>>, ordered |-> <<>>]
Bag(s) == [x \in {s[i] : i \in 1..Len(s)} |-> Cardinality({i \in 1..Len(s) : s[i] = x})]
Firsts(ps) == [i \in 1..Len(ps) |-> ps[i][1]]
AllOk(res) == \A i \in 1..Len(res) : res[i].k = "val"
VARIABLES l, answer, described
Unset == [set |-> FALSE]
Init == l = 1 /\ answer = [q \in 1..NQ |-> Unset] /\ described = [q \in 1..NQ |-> Unset]
Check(r, ans, dsc) ==
  LET e == Expected(r.src)
      p0 == IF r.panic # "" THEN <<"panic">> ELSE <<>>
      p1 == IF ans.set /\ ans.res # r.res THEN <<"answer-differs">> ELSE <<>>
      p2 == IF ~r.describe /\ r.descs # <<>> THEN <<"descriptions-when-off">> ELSE <<>>
      p3 == IF r.describe /\ e.ok /\ AllOk(r.res) /\ Bag(Firsts(r.descs)) # Bag(e.ps) THEN <<"descriptions-missing">> ELSE <<>>
      \* every lookup that found a document is described, with that document, whether or not the expression later fails
      found == SelectSeq(r.lookups, LAMBDA x : x[2] # 0)
      p4 == IF r.describe /\ r.panic = "" /\ found # r.descs THEN <<"wrong-constant">> ELSE <<>>
      p5 == IF r.describe /\ dsc.set /\ dsc.descs # r.descs THEN <<"descriptions-differ">> ELSE <<>>
      p6 == IF r.describe /\ e.ok /\ AllOk(r.res) /\ Bag(Firsts(r.descs)) = Bag(e.ps) /\ Firsts(r.descs) # e.ordered THEN <<"order">> ELSE <<>> IN
  p0 \o p1 \o p2 \o p3 \o p4 \o p5 \o p6
Next == /\ l <= Len(Rec) /\ l' = l + 1
        /\ LET r == Rec[l]
               c == Check(r, answer[r.q], described[r.q]) IN
           /\ answer' = IF answer[r.q].set THEN answer ELSE [answer EXCEPT ![r.q] = [set |-> TRUE, res |-> r.res]]
           /\ described' = IF r.describe /\ ~described[r.q].set THEN [described EXCEPT ![r.q] = [set |-> TRUE, descs |-> r.descs]] ELSE described
           /\ (c = <<>> \/ PrintT(<<"MISMATCH", ToJson([l |-> l, id |-> r.id, problems |-> c])>>))
Done == l = Len(Rec) + 1 => PrintT(<<"SUMMARY", ToJson([records |-> Len(Rec), judged |-> Len(Rec), decided |-> Len(Rec)])>>)
=============================================================================
