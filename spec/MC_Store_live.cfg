\* liveness: no kills, weak fairness on process steps
SPECIFICATION FairSpec
CONSTANTS
  InvalidateFirst = TRUE
  MetaBeforeCommit = FALSE
  NDocs = 2
  MaxFaults = 2
  MaxCrashes = 1
PROPERTY EventuallyReady
CHECK_DEADLOCK FALSE
