------------------------------ MODULE ModArith ------------------------------
(* Exact arithmetic without big numbers (DESIGN.md section 3).

   A rational whose denominator is prime to p maps homomorphically onto the field F_p.
   Values are carried as vectors of residues for four primes just below 2^15 (products fit
   31 bits).  Big numerators / denominators cross the JSON boundary as base-10^4 limbs
   (most significant first) and are reduced by Horner's rule.  Two exactly equal rationals
   agree for every prime, so a comparison in F_p never raises a false alarm; a wrong value
   survives all four primes with probability ~ 1e-18.                                      *)
EXTENDS Integers, Sequences, TLC

Primes == <<32749, 32719, 32717, 32713>>
NP == 4
PIdx == 1..NP

RECURSIVE PowMod(_, _, _)
PowMod(b, e, p) == IF e = 0 THEN 1
                   ELSE LET h == PowMod(b, e \div 2, p) IN
                        IF e % 2 = 0 THEN (h * h) % p ELSE (((h * h) % p) * b) % p
InvMod(a, p) == PowMod(a % p, p - 2, p)

\* A residue of -1 means "blind": somewhere on the way to this value the inverse of a number
\* divisible by that prime was needed, so this prime can say nothing about the value.  Blindness
\* propagates through every operation and a blind prime is skipped by every comparison.
Blind == -1
B2(a, b, v) == IF a = Blind \/ b = Blind THEN Blind ELSE v
RInt(n) == TLCEval([k \in PIdx |-> n % Primes[k]])   \* TLC's % is non-negative for a positive modulus
RAdd(x, y) == TLCEval([k \in PIdx |-> B2(x[k], y[k], (x[k] + y[k]) % Primes[k])])
RSub(x, y) == TLCEval([k \in PIdx |-> B2(x[k], y[k], (x[k] - y[k] + Primes[k]) % Primes[k])])
RNeg(x) == TLCEval([k \in PIdx |-> B2(x[k], 0, (Primes[k] - x[k]) % Primes[k])])
RMul(x, y) == TLCEval([k \in PIdx |-> B2(x[k], y[k], (x[k] * y[k]) % Primes[k])])
RInv(x) == TLCEval([k \in PIdx |-> IF x[k] = Blind \/ x[k] = 0 THEN Blind ELSE InvMod(x[k], Primes[k])])
RDiv(x, y) == RMul(x, RInv(y))
\* zero for every prime that can see the value (exact zero, or ~1e-18), and at least one can
RZero(x) == (\A k \in PIdx : x[k] = 0 \/ x[k] = Blind) /\ (\E k \in PIdx : x[k] = 0)
RBlind(x) == {k \in PIdx : x[k] = Blind}
REq(x, y) == \A k \in PIdx : x[k] = Blind \/ y[k] = Blind \/ x[k] = y[k]
RECURSIVE RPowNat(_, _)
RPowNat(x, n) == IF n = 0 THEN RInt(1)
                 ELSE LET h == RPowNat(x, n \div 2) IN IF n % 2 = 0 THEN RMul(h, h) ELSE RMul(RMul(h, h), x)
RPow(x, n) == IF n >= 0 THEN RPowNat(x, n) ELSE RInv(RPowNat(x, 0 - n))
RRat(n, d) == RDiv(RInt(n), RInt(d))

\* residues of a limb sequence (base 10^4, most significant first)
RECURSIVE HornerL(_, _, _, _)
HornerL(ls, i, acc, p) == IF i > Len(ls) THEN acc ELSE HornerL(ls, i + 1, (acc * 10000 + ls[i]) % p, p)
RLimbs(ls) == TLCEval([k \in PIdx |-> HornerL(ls, 1, 0, Primes[k])])
\* residues of a decimal digit sequence (values 0..9, most significant first)
RECURSIVE HornerD(_, _, _, _)
HornerD(ds, i, acc, p) == IF i > Len(ds) THEN acc ELSE HornerD(ds, i + 1, (acc * 10 + ds[i]) % p, p)
RDigits(ds) == TLCEval([k \in PIdx |-> HornerD(ds, 1, 0, Primes[k])])

\* a recorded value num/den (limbs, sign) equals the residue vector x for every prime that
\* does not divide den  <=>  num = x * den (mod p)
SameAs(x, neg, numLimbs, denLimbs) ==
  LET n0 == RLimbs(numLimbs)
      n == IF neg THEN RNeg(n0) ELSE n0
      d == RLimbs(denLimbs) IN
  \A k \in PIdx : d[k] = 0 \/ x[k] = Blind \/ n[k] = (x[k] * d[k]) % Primes[k]

\* ---- small exact rationals <<n, d>>, d > 0, reduced; Unknown when a bound would be exceeded
Unknown == <<0, 0>>
Known(q) == q[2] # 0
Abs(x) == IF x < 0 THEN 0 - x ELSE x
RECURSIVE Gcd(_, _)
Gcd(x, y) == IF y = 0 THEN x ELSE Gcd(y, x % y)
Bound == 30000
Norm(n, d) == IF d = 0 THEN Unknown
              ELSE LET g == Gcd(Abs(n), Abs(d))
                       s == IF d < 0 THEN -1 ELSE 1
                       nn == s * (n \div g)
                       dd == s * (d \div g) IN
                   IF Abs(nn) > Bound \/ dd > Bound THEN Unknown ELSE <<nn, dd>>
QInt(n) == IF Abs(n) > Bound THEN Unknown ELSE <<n, 1>>
QAdd(x, y) == IF Known(x) /\ Known(y) THEN Norm(x[1] * y[2] + y[1] * x[2], x[2] * y[2]) ELSE Unknown
QSub(x, y) == IF Known(x) /\ Known(y) THEN Norm(x[1] * y[2] - y[1] * x[2], x[2] * y[2]) ELSE Unknown
QMul(x, y) == IF Known(x) /\ Known(y) THEN Norm(x[1] * y[1], x[2] * y[2]) ELSE Unknown
QDiv(x, y) == IF Known(x) /\ Known(y) /\ y[1] # 0 THEN Norm(x[1] * y[2], x[2] * y[1]) ELSE Unknown
RECURSIVE QPowNat(_, _)
QPowNat(x, n) == IF n = 0 THEN <<1, 1>> ELSE QMul(x, QPowNat(x, n - 1))
QPow(x, n) == IF ~Known(x) THEN Unknown
              ELSE IF n >= 0 THEN QPowNat(x, n)
              ELSE IF x[1] = 0 THEN Unknown ELSE QPowNat(QDiv(<<1, 1>>, x), 0 - n)
QIsInt(x) == Known(x) /\ x[2] = 1
QRes(x) == RRat(x[1], x[2])
\* floor / ceil / round-half-away of a known small rational, by their defining inequalities
QFloor(x) == CHOOSE f \in (x[1] \div x[2] - 1)..(x[1] \div x[2] + 1) : f * x[2] <= x[1] /\ x[1] < (f + 1) * x[2]
QCeil(x) == CHOOSE c \in (x[1] \div x[2] - 1)..(x[1] \div x[2] + 2) : (c - 1) * x[2] < x[1] /\ x[1] <= c * x[2]
QRound(x) == IF x[1] >= 0 THEN QFloor(<<2 * x[1] + x[2], 2 * x[2]>>)
             ELSE 0 - QFloor(<<2 * (0 - x[1]) + x[2], 2 * x[2]>>)
=============================================================================
