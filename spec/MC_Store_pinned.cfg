\* the protocol as pinned (meta.json not invalidated first): AnswersAsFresh must FAIL (selftest)
SPECIFICATION Spec
CONSTANTS
  InvalidateFirst = FALSE
  MetaBeforeCommit = FALSE
  NDocs = 2
  MaxFaults = 0
  MaxCrashes = 0
INVARIANT AnswersAsFresh
CHECK_DEADLOCK FALSE
