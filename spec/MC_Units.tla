------------------------------ MODULE MC_Units ------------------------------
(* The operational layer of Units.tla (Powers::insert, base_units, factor, mul with
   reconstruct / bases_match / inner_match, transcribed from powers.rs / compound.rs) against
   the declarative layer (Dims, Scale) on a sub-vocabulary: every pair (a, b) of a compound of
   one or two units with a compound of one unit (optionally two), powers -2..2, some prefixes.
   `a` is chosen in Init, `b` in Next.
     FactorIff   C02: factor() accepts exactly the commensurable pairs
     MulExact    C04 / C13: for a*b and a/b the re-derived unit has no zero power, its base
                 dimensions are the sum / difference, and value * Scale(unit) is exactly the
                 product / quotient of the operands' SI values, whichever units reconstruct() picks
   ZeroEntriesKept = TRUE (Powers::insert as originally pinned) must violate FactorIff.        *)
EXTENDS Units
CONSTANTS Wide      \* TRUE: b also ranges over two-unit compounds (thorough)
Vocab == {"Meter", "Second", "KiloGram", "Ampere", "NEWTON", "JOULE", "WATT", "VOLT", "COULOMB", "PASCAL",
          "BECQUEREL", "FOOT", "MINUTE", "LITRE", "KNOT", "HECTARE", "OHM"}
Pws == {-2, -1, 1, 2}
One(u, pw, px) == [x \in {u} |-> [pw |-> pw, px |-> px]]
Two(u, pu, v, pv) == [x \in {u, v} |-> IF x = u THEN [pw |-> pu, px |-> 0] ELSE [pw |-> pv, px |-> 0]]
Singles == {One(u, pw, 0) : u \in Vocab, pw \in Pws} \cup {One(u, pw, 3) : u \in {"Meter", "NEWTON", "LITRE"}, pw \in Pws}
             \cup {One("Second", pw, -3) : pw \in Pws}
Doubles == {Two(u, pu, v, pv) : u \in Vocab, v \in Vocab, pu \in Pws, pv \in {-1, 1, 2}}
Compounds == Singles \cup {c \in Doubles : Cardinality(DOMAIN c) = 2}
None == [none |-> TRUE]
VARIABLES a, b
Init == a \in Compounds /\ b = None
Next == b = None /\ b' \in (IF Wide THEN Compounds ELSE Singles) /\ UNCHANGED a
Spec == Init /\ [][Next]_<<a, b>>
Built == b # None
FactorIff == Built => (FactorOk(a, b) <=> Commensurable(a, b))
DimSum(x, y, n) == [k \in BaseSet |-> x[k] + n * y[k]]
MulExact == Built => \A n \in {1, -1} :
  LET r == Mul(a, b, n, RInt(1), RInt(1))
      val == IF n = 1 THEN RMul(r.lhs, r.rhs) ELSE RDiv(r.lhs, r.rhs) IN
  /\ NoZero(r.unit)
  /\ Dims(r.unit) = DimSum(Dims(a), Dims(b), n)
  /\ REq(RMul(val, Scale(r.unit)), RMul(Scale(a), RPow(Scale(b), n)))
=============================================================================
