----------------------------- MODULE Trace_Codec -----------------------------
(* Implementation -> specification for C17.  Lines:
     unit      a unit (key of the vocabulary) parsed from one of its names by the build under test: the
               identifier it is written with must be the pinned one (UId), and it must survive CBOR and JSON
     compound  a unit expression: its projection <<[name, power, prefix]>> before and after CBOR / JSON
     rational  numerator/denominator before and after CBOR / JSON
     constant  a shipped constant decoded with the library's type and encoded again: must be the shipped value
     count     the number of shipped constants (878, pinned)
   History variable `seen`: identifier -> unit; two units written with one identifier are rejected.  *)
EXTENDS Codec, Json, IOUtils, TLCExt, Sequences
Rec == ndJsonDeserialize(IOEnv.TRACE)
PinnedConstants == 878
VARIABLES l, seen
Check(r, sn) ==
  CASE r.kind = "unit" ->
         (IF ~r.ok THEN <<"unit-not-parsed">> ELSE <<>>)
      \o (IF r.ok /\ r.derived /\ r.key \in UDerivedKeys /\ r.written # UId(r.key) THEN <<"identifier-changed">> ELSE <<>>)
      \o (IF r.ok /\ r.derived /\ r.written \in DOMAIN sn /\ sn[r.written] # r.key THEN <<"identifier-shared">> ELSE <<>>)
      \o (IF r.ok /\ (r.key \in UDerivedKeys) # r.derived THEN <<"kind-changed">> ELSE <<>>)
      \o (IF r.ok /\ ~(r.cbor /\ r.json) THEN <<"unit-round-trip">> ELSE <<>>)
    \* a spelling the build's own unit parser knows but the vocabulary of the specification does not: it must still
    \* survive serialisation (that it is unknown is reported as drift by the driver)
    [] r.kind = "unit_unknown" -> IF r.ok /\ ~r.cbor THEN <<"unit-round-trip">> ELSE IF r.err # "" THEN <<"unit-round-trip">> ELSE <<>>
    [] r.kind = "compound" -> IF r.parsed /\ (r.err # "" \/ r.cbor # r.before \/ r.json # r.before) THEN <<"compound-round-trip">> ELSE <<>>
    [] r.kind = "rational" -> IF r.cbor # r.before \/ r.json # r.before THEN <<"rational-round-trip">> ELSE <<>>
    [] r.kind = "constant" -> IF ~r.decoded \/ ~r.same THEN <<"constant-lossy">> ELSE <<>>
    [] r.kind = "count" -> IF r.constants # PinnedConstants THEN <<"constant-count">> ELSE <<>>
    [] OTHER -> <<"unreadable-file">>
Init == l = 1 /\ seen = <<>>
Next == /\ l <= Len(Rec) /\ l' = l + 1
        /\ LET r == Rec[l]
               c == Check(r, seen) IN
           /\ seen' = IF r.kind = "unit" /\ r.ok /\ r.derived /\ r.written \notin DOMAIN seen
                      THEN [k \in DOMAIN seen \cup {r.written} |-> IF k = r.written THEN r.key ELSE seen[k]] ELSE seen
           /\ (c = <<>> \/ PrintT(<<"MISMATCH", ToJson([l |-> l, id |-> r.id, problems |-> c])>>))
Done == l = Len(Rec) + 1 => PrintT(<<"SUMMARY", ToJson([records |-> Len(Rec), judged |-> Len(Rec), decided |-> Len(Rec)])>>)
=============================================================================
