----------------------------- MODULE UnitDisplay -----------------------------
(* How a compound unit is written out (src/compound.rs `Display`, src/unit.rs `Display`,
   src/prefix.rs).  Beyond the listed properties except for C19's clause "the unit name pluralised
   only when the value is not one"; the composition is owned by this module, the spelling of each
   single unit (singular / plural) and the non-ASCII symbols are parameters:
     names[key] = [sg |-> .., pl |-> ..]        as the tool shows `1 <unit>` and `2 <unit>`
     syms       = [dot |-> "⋅", sup |-> <<"⁰", .., "⁹">>, micro |-> "μ"]
   Rules, as the code has them:
     - units with a positive power first, in the order of the unit map (UnitTable.UOrder), joined by
       the dot; then, if any power is negative, "/" and those units, joined by the dot
     - the plural is used only when asked for AND exactly one unit has a positive power, and only for
       that unit; a denominator is never pluralised
     - each unit: SI prefix symbol for (prefix + the unit's own bias), its name, and its power (absolute
       value) in superscript digits when it is not 1, most significant digit first
     - a power of ten that is no SI prefix is written "e<extra>" + the next lower prefix, with
       extra = (that prefix) - (the power)        [sic: the sign is what the code prints]            *)
EXTENDS Integers, Sequences, FiniteSets, TLC, UnitTable

PrefixPowers == <<-24, -21, -18, -15, -12, -9, -6, -3, -2, -1, 0, 1, 2, 3, 6, 9, 12, 15, 18, 21, 24>>
PrefixSym(p, syms) == CASE p = -24 -> "y" [] p = -21 -> "z" [] p = -18 -> "a" [] p = -15 -> "f" [] p = -12 -> "p" [] p = -9 -> "n"
                        [] p = -6 -> syms.micro [] p = -3 -> "m" [] p = -2 -> "c" [] p = -1 -> "d" [] p = 0 -> "" [] p = 1 -> "da"
                        [] p = 2 -> "h" [] p = 3 -> "k" [] p = 6 -> "M" [] p = 9 -> "G" [] p = 12 -> "T" [] p = 15 -> "P"
                        [] p = 18 -> "E" [] p = 21 -> "Z" [] p = 24 -> "Y"
\* Prefix::find: exact match, else the entry below the insertion point (the lowest entry if there is none)
FindPrefix(pow) ==
  LET below == {i \in 1..Len(PrefixPowers) : PrefixPowers[i] <= pow}
      i == IF below = {} THEN 1 ELSE CHOOSE j \in below : \A k \in below : k <= j IN
  [p |-> PrefixPowers[i], extra |-> PrefixPowers[i] - pow]
RECURSIVE NatStr(_)
Digit1(d) == CASE d = 0 -> "0" [] d = 1 -> "1" [] d = 2 -> "2" [] d = 3 -> "3" [] d = 4 -> "4" [] d = 5 -> "5" [] d = 6 -> "6"
               [] d = 7 -> "7" [] d = 8 -> "8" [] d = 9 -> "9"
NatStr(n) == IF n < 10 THEN Digit1(n) ELSE NatStr(n \div 10) \o Digit1(n % 10)
IntStr(n) == IF n < 0 THEN "-" \o NatStr(0 - n) ELSE NatStr(n)
RECURSIVE SupStr(_, _)
SupStr(n, syms) == IF n < 10 THEN syms.sup[n + 1] ELSE SupStr(n \div 10, syms) \o syms.sup[(n % 10) + 1]
Bias(k) == IF k = "KiloGram" THEN 3 ELSE 0
OneUnit(k, st, plural, names, syms) ==
  LET f == FindPrefix(st.px + Bias(k))
      pw == IF st.pw < 0 THEN 0 - st.pw ELSE st.pw IN
  (IF f.extra = 0 THEN PrefixSym(f.p, syms) ELSE "e" \o IntStr(f.extra) \o PrefixSym(f.p, syms))
    \o (IF plural THEN names[k].pl ELSE names[k].sg)
    \o (IF pw # 1 THEN SupStr(pw, syms) ELSE "")
RECURSIVE JoinUnits(_, _, _, _, _, _)
JoinUnits(ks, j, c, plural, names, syms) ==
  IF j > Len(ks) THEN ""
  ELSE OneUnit(ks[j], c[ks[j]], plural /\ j = 1, names, syms) \o (IF j < Len(ks) THEN syms.dot ELSE "") \o JoinUnits(ks, j + 1, c, plural, names, syms)
\* c: unit key -> [pw, px]
UnitText(c, plural, names, syms) ==
  LET ks == SelectSeq(UOrder, LAMBDA u : u \in DOMAIN c)
      num == SelectSeq(ks, LAMBDA u : c[u].pw >= 0)
      den == SelectSeq(ks, LAMBDA u : c[u].pw < 0) IN
  JoinUnits(num, 1, c, plural /\ Len(num) = 1, names, syms)
    \o (IF den # <<>> THEN "/" \o JoinUnits(den, 1, c, FALSE, names, syms) ELSE "")
HasNumerator(c) == \E u \in DOMAIN c : c[u].pw > 0
=============================================================================
