------------------------------- MODULE Parser -------------------------------
(* The hand-written parser (src/syntax/parser.rs + src/syntax/grammar.rs) and the tree walk of
   the evaluator (src/eval.rs, src/query.rs), transcribed function by function.

   Input: the sequence `ks` of token kinds (names as Lexer.tla emits them).  The parser state is
     S = [pos |-> number of tokens consumed, sib |-> the sibling list being built]
   A tree element is  Leaf(kind, token index)  or  Node(KIND, children).  grammar.rs never keeps
   a node open across calls (it only uses checkpoints, close_at and bump_node), so a flat sibling
   list with CloseAt is an exact model of the syntree builder.

   One operator per Rust function; one recursion step per loop iteration.

   Properties (checked by MC_Parser.tla on every token string up to a length, and by
   MC_Eval.tla / MC_Gen.tla from the grammar side):
     Lossless   the leaves of the tree are exactly the tokens, in order        (C12, parser half)
     Refines    whenever Grammar.tla reads the tokens as a sequence of expressions, the results
                the evaluator would compute from the tree are exactly those expressions (C06)
   The as-pinned constants re-create the five defects repaired in /repo; each makes TLC produce a
   counterexample (regression of the specification).                                         *)
EXTENDS Grammar

CONSTANTS StaleSkip,             \* as pinned: operation() returned the skip counted before its last operand
          ParenReusesSkip,       \* as pinned: value() handed the already consumed skip to the nested operation()
          EatIgnoresSkip,        \* as pinned: eat() matched at get(n) instead of get(skip + n)
          RelabelInsteadOfPop,   \* as pinned: a lower-priority operator re-labelled the closed frame
          TokensAreResults       \* as pinned: Query evaluated root-level tokens as if they were nodes

Leaf(k, i) == [leaf |-> TRUE, k |-> k, i |-> i, ch |-> <<>>]
Node(k, ch) == [leaf |-> FALSE, k |-> k, i |-> 0, ch |-> ch]

\* ---------------------------------------------------------------- parser.rs
Get(ks, S, n) == IF S.pos + n + 1 <= Len(ks) THEN ks[S.pos + n + 1] ELSE "EOF"       \* nth(Skip(0), n) / get(n)
RECURSIVE CountSkipFrom(_, _, _)
CountSkipFrom(ks, S, n) == IF Get(ks, S, n) = "WHITESPACE" THEN CountSkipFrom(ks, S, n + 1) ELSE n
CountSkip(ks, S) == CountSkipFrom(ks, S, 0)
Bump(ks, S) == IF Get(ks, S, 0) = "EOF" THEN S
               ELSE [pos |-> S.pos + 1, sib |-> Append(S.sib, Leaf(ks[S.pos + 1], S.pos + 1))]
RECURSIVE BumpN(_, _, _)
BumpN(ks, S, n) == IF n = 0 THEN S ELSE BumpN(ks, Bump(ks, S), n - 1)                \* skip(Skip(n))
BumpNode(ks, S, K) == IF Get(ks, S, 0) = "EOF" THEN [S EXCEPT !.sib = Append(@, Node(K, <<>>))]
                      ELSE [pos |-> S.pos + 1, sib |-> Append(S.sib, Node(K, <<Leaf(ks[S.pos + 1], S.pos + 1)>>))]
Checkpoint(S) == Len(S.sib) + 1
CloseAt(S, c, K) == [S EXCEPT !.sib = SubSeq(S.sib, 1, c - 1) \o <<Node(K, SubSeq(S.sib, c, Len(S.sib)))>>]
Eat(ks, S, skip, k) ==                                                                \* eat(skip, &[k])
  LET at == IF EatIgnoresSkip THEN 0 ELSE skip IN
  IF Get(ks, S, at) = k THEN [ok |-> TRUE, S |-> BumpN(ks, S, skip + 1)] ELSE [ok |-> FALSE, S |-> S]
RECURSIVE BumpUntil(_, _, _)
BumpUntil(ks, S, k) == IF Get(ks, S, 0) = "EOF" THEN S
                       ELSE IF Get(ks, S, 0) = k THEN Bump(ks, S) ELSE BumpUntil(ks, Bump(ks, S), k)

\* ---------------------------------------------------------------- grammar.rs: unit()
UnitTrailKind(k) == CASE k \in {"WORD", "TO"} -> "WORD" [] k = "NUMBER" -> "NUMBER" [] k = "STAR" -> "OP_MUL"
                      [] k = "SLASH" -> "OP_DIV" [] k \in {"CARET", "STARSTAR"} -> "OP_POWER" [] OTHER -> ""
RECURSIVE UnitTrail(_, _)
UnitTrail(ks, S) ==       \* the inner `skip = loop { .. }`: [S, more]; more = it broke with Skip::ONE
  LET k == Get(ks, S, 0) IN
  IF UnitTrailKind(k) # "" THEN UnitTrail(ks, BumpNode(ks, S, UnitTrailKind(k)))
  ELSE [S |-> S, more |-> k = "WHITESPACE"]
RECURSIVE UnitLoop(_, _, _, _)
UnitLoop(ks, S, skip, c) ==      \* 'outer: loop; c = 0 while no checkpoint has been taken
  IF Get(ks, S, skip) \notin {"NUMBER", "WORD"} THEN [S |-> S, c |-> c]
  ELSE LET S1 == BumpN(ks, S, skip)
           c1 == IF c = 0 THEN Checkpoint(S1) ELSE c
           tr == UnitTrail(ks, BumpNode(ks, S1, Get(ks, S, skip))) IN
       IF tr.more THEN UnitLoop(ks, tr.S, 1, c1) ELSE [S |-> tr.S, c |-> c1]
Unit(ks, S, skip) == LET u == UnitLoop(ks, S, skip, 0) IN
                     IF u.c # 0 THEN [some |-> TRUE, S |-> CloseAt(u.S, u.c, "UNIT"), c |-> u.c]
                     ELSE [some |-> FALSE, S |-> u.S, c |-> 0]

\* ---------------------------------------------------------------- grammar.rs: value(), call_arguments(), operation()
None(S) == [some |-> FALSE, S |-> S, skip |-> 0, c |-> 0]
OpInfo(k) == CASE k = "TO" -> [p |-> 1, node |-> "OP_CAST", unit |-> TRUE]
               [] k = "PLUS" -> [p |-> 2, node |-> "OP_ADD", unit |-> FALSE]
               [] k = "DASH" -> [p |-> 2, node |-> "OP_SUB", unit |-> FALSE]
               [] k = "STAR" -> [p |-> 3, node |-> "OP_MUL", unit |-> FALSE]
               [] k = "SLASH" -> [p |-> 3, node |-> "OP_DIV", unit |-> FALSE]
               [] k \in {"CARET", "STARSTAR"} -> [p |-> 10, node |-> "OP_POWER", unit |-> FALSE]
               [] OTHER -> [p |-> 0, node |-> "", unit |-> FALSE]

RECURSIVE Operation(_, _, _), Value(_, _, _), OpLoop(_, _, _, _, _, _), Unwind(_, _, _, _, _), PopAll(_, _),
          CallArgs(_, _), ArgLoop(_, _, _), BraceWords(_, _, _, _), SentenceWords(_, _, _, _)

BraceWords(ks, S, skip, words) ==       \* while let WORD = p.nth(skip, 0)
  IF Get(ks, S, skip) = "WORD"
  THEN LET S1 == BumpNode(ks, BumpN(ks, S, skip), "WORD") IN BraceWords(ks, S1, CountSkip(ks, S1), words + 1)
  ELSE [S |-> S, skip |-> skip, words |-> words]
SentenceWords(ks, S, skip, any) ==      \* while let WORD | NUMBER = p.nth(skip, 0)
  IF Get(ks, S, skip) \in {"WORD", "NUMBER"}
  THEN LET S1 == BumpNode(ks, BumpN(ks, S, skip), "WORD") IN SentenceWords(ks, S1, CountSkip(ks, S1), TRUE)
  ELSE [S |-> S, skip |-> skip, any |-> any]

Value(ks, S, skip) ==
  LET k == Get(ks, S, skip) IN
  CASE k = "OPEN_BRACE" ->
         LET S1 == BumpN(ks, S, skip)
             start == Checkpoint(S1)
             S2 == Bump(ks, S1)
             c == Checkpoint(S2)
             w == BraceWords(ks, S2, CountSkip(ks, S2), 0)
             S3 == IF w.words > 1 THEN CloseAt(w.S, c, "SENTENCE") ELSE w.S
             e == Eat(ks, S3, w.skip, "CLOSE_BRACE") IN
         IF e.ok THEN [some |-> TRUE, S |-> e.S, skip |-> 0, c |-> start] ELSE None(BumpUntil(ks, S3, "CLOSE_BRACE"))
    [] k = "WORD" ->
         LET S1 == BumpN(ks, S, skip)
             start == Checkpoint(S1)
             S2 == BumpNode(ks, S1, "WORD") IN
         IF Get(ks, S2, 0) = "OPEN_PAREN"
         THEN LET S3 == Bump(ks, CloseAt(S2, start, "FN_NAME"))
                  a == CallArgs(ks, S3) IN
              IF a.ok THEN [some |-> TRUE, S |-> CloseAt(a.S, start, "FN_CALL"), skip |-> 0, c |-> start] ELSE None(a.S)
         ELSE LET w == SentenceWords(ks, S2, CountSkip(ks, S2), FALSE) IN
              [some |-> TRUE, S |-> IF w.any THEN CloseAt(w.S, start, "SENTENCE") ELSE w.S, skip |-> 0, c |-> start]
    [] k = "NUMBER" ->
         LET S1 == BumpN(ks, S, skip)
             c == Checkpoint(S1)
             S2 == Bump(ks, S1)
             sk == CountSkip(ks, S2) IN
         IF Get(ks, S2, sk) = "PERCENTAGE"
         THEN [some |-> TRUE, S |-> CloseAt(Bump(ks, BumpN(ks, S2, sk)), c, "PERCENTAGE"), skip |-> 0, c |-> c]
         ELSE LET u == Unit(ks, S2, sk) IN
              [some |-> TRUE, S |-> CloseAt(u.S, c, IF u.some THEN "WITH_UNIT" ELSE "NUMBER"), skip |-> 0, c |-> c]
    [] k = "OPEN_PAREN" ->
         LET S1 == BumpN(ks, S, skip)
             c == Checkpoint(S1)
             S2 == Bump(ks, S1)
             r == Operation(ks, S2, IF ParenReusesSkip THEN skip ELSE CountSkip(ks, S2)) IN
         IF ~r.some THEN None(r.S)
         ELSE LET e == Eat(ks, r.S, r.skip, "CLOSE_PAREN") IN
              IF e.ok THEN [some |-> TRUE, S |-> e.S, skip |-> 0, c |-> c] ELSE None(e.S)
    [] OTHER -> None(S)

\* call_arguments: [ok, S]
ArgLoop(ks, S, c) ==
  LET skip == CountSkip(ks, S) IN
  IF Get(ks, S, skip) = "CLOSE_PAREN" THEN [some |-> TRUE, S |-> S, skip |-> skip]
  ELSE LET r == Operation(ks, S, skip) IN
       IF ~r.some THEN [some |-> FALSE, S |-> r.S, skip |-> 0]
       ELSE LET e == Eat(ks, r.S, r.skip, "COMMA") IN
            IF e.ok THEN ArgLoop(ks, e.S, c) ELSE [some |-> TRUE, S |-> r.S, skip |-> r.skip]
CallArgs(ks, S) ==
  LET c == Checkpoint(S)
      l == ArgLoop(ks, S, c) IN
  IF ~l.some THEN [ok |-> FALSE, S |-> l.S]
  ELSE Eat(ks, CloseAt(l.S, c, "FN_ARGUMENTS"), l.skip, "CLOSE_PAREN")

\* the inner `loop { match ordering .. }`: frames are [c, p, unit]
Unwind(S, stack, info, cur, relabelled) ==
  IF stack = <<>> THEN [S |-> S, stack |-> <<[c |-> cur, p |-> info.p, unit |-> info.unit]>>]
  ELSE LET top == stack[Len(stack)] IN
    IF info.p < top.p THEN
       IF RelabelInsteadOfPop
       THEN [S |-> CloseAt(S, top.c, "OPERATION"),
             stack |-> [stack EXCEPT ![Len(stack)] = [c |-> top.c, p |-> info.p, unit |-> info.unit]]]
       ELSE Unwind(CloseAt(S, top.c, "OPERATION"), SubSeq(stack, 1, Len(stack) - 1), info, top.c, relabelled)
    ELSE IF info.p > top.p THEN [S |-> S, stack |-> Append(stack, [c |-> cur, p |-> info.p, unit |-> info.unit])]
    ELSE [S |-> S, stack |-> stack]
PopAll(S, stack) == IF stack = <<>> THEN S
                    ELSE PopAll(CloseAt(S, stack[Len(stack)].c, "OPERATION"), SubSeq(stack, 1, Len(stack) - 1))
OpLoop(ks, S, skip, open, stack, first) ==
  LET isUnit == IF stack = <<>> THEN FALSE ELSE stack[Len(stack)].unit
      v == IF isUnit THEN (LET u == Unit(ks, BumpN(ks, S, skip), 0) IN [some |-> u.some, S |-> u.S, skip |-> 0, c |-> u.c])
           ELSE Value(ks, S, skip) IN
  IF ~v.some THEN None(v.S)
  ELSE LET sk == CountSkip(ks, v.S)
           info == OpInfo(Get(ks, v.S, sk)) IN
       IF info.p = 0
       THEN [some |-> TRUE, S |-> PopAll(v.S, stack), skip |-> IF StaleSkip THEN skip ELSE sk, c |-> open]
       ELSE LET st0 == IF first THEN <<[c |-> open, p |-> info.p, unit |-> info.unit]>> ELSE stack
                u == Unwind(v.S, st0, info, v.c, FALSE)
                S1 == BumpNode(ks, BumpN(ks, u.S, sk), info.node) IN
            OpLoop(ks, S1, CountSkip(ks, S1), open, u.stack, FALSE)
Operation(ks, S, skip) == OpLoop(ks, S, skip, Checkpoint(S), <<>>, TRUE)

\* ---------------------------------------------------------------- grammar.rs: root()
RECURSIVE RootLoop(_, _, _, _, _)
RootLoop(ks, S, skip, error, fuel) ==
  LET k == Get(ks, S, skip) IN
  IF fuel = 0 THEN [S |-> S, error |-> TRUE, stuck |-> TRUE]
  ELSE IF k = "EOF" THEN [S |-> BumpN(ks, S, skip), error |-> error, stuck |-> FALSE]
  ELSE IF k \in {"OPEN_BRACE", "OPEN_PAREN", "WORD", "NUMBER"} THEN
       LET r == Operation(ks, S, skip) IN
       IF r.some THEN RootLoop(ks, r.S, r.skip, error, fuel - 1)
       ELSE RootLoop(ks, CloseAt(r.S, 1, "ERROR"), skip, error, fuel - 1)
  ELSE LET S1 == Bump(ks, BumpN(ks, S, skip)) IN RootLoop(ks, S1, CountSkip(ks, S1), TRUE, fuel - 1)
ParseRoot(ks) ==
  LET S0 == [pos |-> 0, sib |-> <<>>]
      r == RootLoop(ks, S0, CountSkip(ks, S0), FALSE, 2 * Len(ks) + 3) IN
  [sib |-> IF r.error THEN <<Node("ERROR", r.S.sib)>> ELSE r.S.sib, pos |-> r.S.pos, stuck |-> r.stuck]

\* ---------------------------------------------------------------- eval.rs / query.rs: tree -> meaning
NodesOf(ch) == SelectSeq(ch, LAMBDA x : ~x.leaf)
RECURSIVE LeavesSeq(_, _)
Leaves(x) == IF x.leaf THEN <<x.i>> ELSE LeavesSeq(x.ch, 1)
LeavesSeq(ch, j) == IF j > Len(ch) THEN <<>> ELSE Leaves(ch[j]) \o LeavesSeq(ch, j + 1)
Range(x) == LET ls == Leaves(x) IN IF ls = <<>> THEN <<0, 0>> ELSE <<ls[1], ls[Len(ls)] + 1>>
NodeOp(k) == CASE k = "OP_ADD" -> "+" [] k = "OP_SUB" -> "-" [] k = "OP_DIV" -> "/" [] k \in {"OP_MUL", "OP_IMPLICIT_MUL"} -> "*"
               [] k = "OP_POWER" -> "^" [] k = "OP_CAST" -> "to" [] OTHER -> "?"
RECURSIVE Ast(_), Fold(_, _, _), AstArgs(_, _)
AstArgs(ns, j) == IF j > Len(ns) THEN <<>> ELSE <<Ast(ns[j])>> \o AstArgs(ns, j + 1)
Fold(base, ns, j) ==       \* while let (Some(op), Some(rhs)) = (it.next(), it.next())
  IF j + 1 > Len(ns) THEN base
  ELSE LET o == NodeOp(ns[j].k) IN
       IF o = "?" \/ base.t = "bad" THEN BadAst
       ELSE IF o = "to" THEN (IF ns[j + 1].k = "UNIT" THEN Fold([t |-> "cast", l |-> base, u |-> Range(ns[j + 1])], ns, j + 2) ELSE BadAst)
       ELSE LET r == Ast(ns[j + 1]) IN
            IF r.t = "bad" THEN BadAst ELSE Fold([t |-> "bin", op |-> o, l |-> base, r |-> r], ns, j + 2)
Ast(x) ==
  IF x.leaf THEN BadAst
  ELSE CASE x.k = "OPERATION" -> LET ns == NodesOf(x.ch) IN IF ns = <<>> THEN BadAst ELSE Fold(Ast(ns[1]), ns, 2)
         [] x.k = "NUMBER" -> IF Len(x.ch) = 1 /\ x.ch[1].leaf THEN [t |-> "num", i |-> x.ch[1].i] ELSE BadAst
         [] x.k = "PERCENTAGE" -> IF Len(x.ch) >= 1 /\ x.ch[1].leaf /\ x.ch[1].k = "NUMBER" THEN [t |-> "pct", i |-> x.ch[1].i] ELSE BadAst
         [] x.k = "WITH_UNIT" -> LET ns == NodesOf(x.ch) IN
                                 IF Len(x.ch) >= 1 /\ x.ch[1].leaf /\ x.ch[1].k = "NUMBER" /\ ns # <<>> /\ ns[1].k = "UNIT"
                                 THEN [t |-> "qty", i |-> x.ch[1].i, u |-> Range(ns[1])] ELSE BadAst
         [] x.k \in {"SENTENCE", "WORD"} -> [t |-> "phrase", u |-> Range(x)]
         [] x.k = "FN_CALL" -> LET ns == NodesOf(x.ch) IN
                               IF Len(ns) >= 2 /\ ns[1].k = "FN_NAME" /\ ns[2].k = "FN_ARGUMENTS"
                               THEN LET as == AstArgs(NodesOf(ns[2].ch), 1) IN
                                    IF \E j \in 1..Len(as) : as[j].t = "bad" THEN BadAst
                                    ELSE [t |-> "call", i |-> Range(ns[1])[1], args |-> as]
                               ELSE BadAst
         [] OTHER -> BadAst
\* Query::next: one result per root-level node
TreeResults(sib) == LET xs == IF TokensAreResults THEN sib ELSE NodesOf(sib) IN TLCEval([j \in 1..Len(xs) |-> Ast(xs[j])])

\* the phrases (SENTENCE / WORD nodes, as token ranges) in the order eval() looks them up: in an OPERATION the first
\* operand is delayed until the first operator has evaluated its right operand (a cast evaluates only the left one)
RECURSIVE LookupOrder(_), OpOrder(_, _, _), SeqOrder(_, _)
SeqOrder(ns, j) == IF j > Len(ns) THEN <<>> ELSE LookupOrder(ns[j]) \o SeqOrder(ns, j + 1)
OpOrder(ns, j, delayed) ==
  IF j + 1 > Len(ns) THEN (IF delayed THEN LookupOrder(ns[1]) ELSE <<>>)
  ELSE IF NodeOp(ns[j].k) = "to" THEN (IF delayed THEN LookupOrder(ns[1]) ELSE <<>>) \o OpOrder(ns, j + 2, FALSE)
  ELSE LookupOrder(ns[j + 1]) \o (IF delayed THEN LookupOrder(ns[1]) ELSE <<>>) \o OpOrder(ns, j + 2, FALSE)
LookupOrder(x) ==
  IF x.leaf THEN <<>>
  ELSE CASE x.k = "OPERATION" -> LET ns == NodesOf(x.ch) IN IF ns = <<>> THEN <<>> ELSE OpOrder(ns, 2, TRUE)
         [] x.k \in {"SENTENCE", "WORD"} -> <<Range(x)>>
         [] x.k = "FN_CALL" -> LET ns == NodesOf(x.ch) IN IF Len(ns) >= 2 THEN SeqOrder(NodesOf(ns[2].ch), 1) ELSE <<>>
         [] OTHER -> <<>>

\* ---------------------------------------------------------------- properties of one token string
Lossless(ks) == LET p == ParseRoot(ks) IN ~p.stuck /\ LeavesSeq(p.sib, 1) = [i \in 1..Len(ks) |-> i]
\* brace groups `{ .. }` are outside the documented grammar (Grammar.tla does not read them)
AsToks(ks) == TLCEval([i \in 1..Len(ks) |-> [k |-> ks[i]]])
Refines(ks) == LET g == Grammar(AsToks(ks)) IN g.ok => TreeResults(ParseRoot(ks).sib) = g.asts
\* the reverse direction, for error-freedom: if every result of the tree is a meaning, the grammar reads the same
Sound(ks) == LET rs == TreeResults(ParseRoot(ks).sib)
                 g == Grammar(AsToks(ks)) IN
             ((\A i \in 1..Len(ks) : ks[i] \notin {"OPEN_BRACE", "CLOSE_BRACE"}) /\ rs # <<>> /\ \A j \in 1..Len(rs) : rs[j].t # "bad")
             => (g.ok /\ g.asts = rs)
=============================================================================
