\* exhaustive, unbounded faults and kills, repaired protocol
SPECIFICATION Spec
CONSTANTS
  InvalidateFirst = TRUE
  MetaBeforeCommit = FALSE
  NDocs = 2
  MaxFaults = 0
  MaxCrashes = 0
INVARIANT TypeOK
INVARIANT AnswersAsFresh
PROPERTY MetaWrittenAfterCommit
PROPERTY MemoryIsReadOnly
CHECK_DEADLOCK FALSE
