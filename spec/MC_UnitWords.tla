---------------------------- MODULE MC_UnitWords ----------------------------
(* Unit words over the whole vocabulary (C05): every documented name alone, every prefix
   spelling in front of every name (about 9 800 words), and -- Two = TRUE -- every concatenation of
   two short names.  The word is built in Init / Next; in every state
     Sound       if the longest-match procedure of the generated parser (ParseWord, operational)
                 accepts the word, what it delivers is one of the word's readings (Readings, declarative)
     NamesAlone  a documented name on its own is accepted with exactly its own meaning
   With Emit every word is printed for the replay into the real tool.                          *)
EXTENDS UnitWords, Json
CONSTANTS Two, Emit
NoWord == [w |-> <<>>, kind |-> "none", u |-> ""]
VARIABLE word
Init == word \in {[w |-> nm.w, kind |-> "name", u |-> nm.u] : nm \in UNames}
Short == {nm \in UNames : Len(nm.w) <= 3}
\* the one-letter names that are also prefix symbols (m h T M c a y), in front of a prefixed short name: `mkg`, `hkW`
Shared1 == {nm \in UNames : Len(nm.w) = 1 /\ \E p \in UPrefixes : p.w = nm.w}
Sym == {p \in UPrefixes : Len(p.w) <= 2}
Short2 == {nm \in UNames : Len(nm.w) <= 2}
Next == /\ word.kind = "name"
        /\ \/ \E p \in UPrefixes : word' = [w |-> p.w \o word.w, kind |-> "prefixed", u |-> word.u]
           \/ (Two /\ Len(word.w) <= 3 /\ \E nm \in Short : word' = [w |-> word.w \o nm.w, kind |-> "two", u |-> word.u])
           \/ (word.w \in {nm.w : nm \in Shared1} /\ \E p \in Sym, nm \in Short2 :
                   word' = [w |-> word.w \o p.w \o nm.w, kind |-> "three", u |-> word.u])
Spec == Init /\ [][Next]_word
Sound == LET p == ParseWord(word.w) IN p.ok => p.r \in Readings(word.w)
NamesAlone == word.kind = "name" =>
                LET p == ParseWord(word.w) IN
                p.ok /\ Len(p.r) = 1 /\ p.r[1].u = word.u /\ p.r[1].e = (CHOOSE nm \in UNames : nm.w = word.w /\ nm.u = word.u).bias
RECURSIVE JoinW(_, _)
JoinW(cs, i) == IF i > Len(cs) THEN "" ELSE (CASE cs[i] = "DEG" -> "DEG" [] cs[i] = "OMEGA" -> "OMEGA" [] cs[i] = "MU" -> "MU" [] OTHER -> cs[i]) \o JoinW(cs, i + 1)
EmitInv == Emit => PrintT(<<"VEC", ToJson([w |-> word.w, kind |-> word.kind, u |-> word.u, bt |-> ParseWord(word.w).bt,
                                            ok |-> ParseWord(word.w).ok, nread |-> Cardinality(Readings(word.w))])>>)
=============================================================================
