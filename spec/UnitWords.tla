------------------------------ MODULE UnitWords ------------------------------
(* Unit words and unit expressions (C05).

   Declarative:  Readings(w) -- every way to split the characters of a word into
   (prefix spelling? ++ unit name)+ over the vocabulary UnitTable.UNames / UPrefixes; each
   reading is a sequence of [e |-> power of ten (prefix + the name's bias), u |-> unit key].
   UnitExpr -- the meaning of a unit expression: juxtaposition, `*` and blanks multiply,
   `/` inverts everything after it, `^n` applies to the unit it follows.

   Operational:  ParseWord -- the two-lexer longest-match procedure of
   src/generated/unit.rs::parse: a `Combined` lexer over unit names and prefix spellings
   (single letters that are both, like m h T M c a y, are prefix tokens that stand for the
   unit when nothing follows), then after a prefix a `Units` lexer over unit names only;
   repeated until the word is used up (UnitParser).  Plain longest match: the Logos
   backtracking quirk of the generated code is a conformance failure of the code.        *)
EXTENDS Units

MatchAt(w, i, n) == i + Len(n) - 1 <= Len(w) /\ SubSeq(w, i, i + Len(n) - 1) = n
\* (UNamesBy / UPrefixesBy: the same tables indexed by first character, so that TLC matches quickly)
NamesAt(w, i) == IF i > Len(w) THEN {} ELSE {nm \in UNamesBy(w[i]) : MatchAt(w, i, nm.w)}
PrefixesAt(w, i) == IF i > Len(w) THEN {} ELSE {p \in UPrefixesBy(w[i]) : MatchAt(w, i, p.w)}

RECURSIVE ReadingsFrom(_, _)
ReadingsFrom(w, i) ==
  IF i > Len(w) THEN {<<>>}
  ELSE UNION ({ {<<[e |-> nm.bias, u |-> nm.u]>> \o r : r \in ReadingsFrom(w, i + Len(nm.w))} : nm \in NamesAt(w, i) }
        \cup { UNION { {<<[e |-> p.e + nm.bias, u |-> nm.u]>> \o r : r \in ReadingsFrom(w, i + Len(p.w) + Len(nm.w))}
                       : nm \in NamesAt(w, i + Len(p.w)) } : p \in PrefixesAt(w, i) })
Readings(w) == IF w = <<>> THEN {} ELSE ReadingsFrom(w, 1)

\* ---- operational: generated/unit.rs::parse
\* names that are prefix tokens in the Combined lexer (the single letters shared with a prefix)
SharedSpellings == {p.w : p \in UPrefixes} \cap {nm.w : nm \in UNames}
CombinedUnitNames == {nm \in UNames : nm.w \notin SharedSpellings}
Longest(S) == IF S = {} THEN {} ELSE {x \in S : \A y \in S : Len(y.w) <= Len(x.w)}
\* The generated lexers are DFAs: when the input runs further along some longer spelling than the
\* longest complete match and then fails, the DFA has to fall back to its last accepting state
\* ("backtracking situation").  Longest match is still what the procedure is meant to deliver.
RECURSIVE PartialLen(_, _, _, _)
PartialLen(w, i, sp, k) ==       \* does w[i .. i+k-1] start the spelling sp?  longest such k
  IF k < Len(sp) /\ i + k <= Len(w) /\ w[i + k] = sp[k + 1] THEN PartialLen(w, i, sp, k + 1) ELSE k
MaxPartial(w, i, S) == LET ls == {PartialLen(w, i, x.w, 0) : x \in S} IN
                       IF ls = {} THEN 0 ELSE CHOOSE m \in ls : \A y \in ls : y <= m
\* one (prefix, unit) from position i: [ok, e, u, next, bt]
ParseOne(w, i) ==
  LET us == {nm \in NamesAt(w, i) : nm.w \notin SharedSpellings}
      ps == PrefixesAt(w, i)
      bestU == Longest(us)
      bestP == Longest(ps)
      lu == IF bestU = {} THEN 0 ELSE Len((CHOOSE x \in bestU : TRUE).w)
      lp == IF bestP = {} THEN 0 ELSE Len((CHOOSE x \in bestP : TRUE).w)
      bt1 == MaxPartial(w, i, {nm \in UNamesBy(w[i]) : nm.w \notin SharedSpellings} \cup UPrefixesBy(w[i])) > (IF lu > lp THEN lu ELSE lp) IN
  IF lu = 0 /\ lp = 0 THEN [ok |-> FALSE, e |-> 0, u |-> "", next |-> i, bt |-> bt1]
  ELSE IF lu > lp THEN LET nm == CHOOSE x \in bestU : TRUE IN [ok |-> TRUE, e |-> nm.bias, u |-> nm.u, next |-> i + lu, bt |-> bt1]
  ELSE LET p == CHOOSE x \in bestP : TRUE
           j == i + lp
           alone == {nm \in UNames : nm.w = p.w} IN
       IF j > Len(w) /\ alone # {}
       THEN LET nm == CHOOSE x \in alone : TRUE IN [ok |-> TRUE, e |-> nm.bias, u |-> nm.u, next |-> j, bt |-> bt1]
       ELSE LET b2 == Longest(NamesAt(w, j))
                l2 == IF b2 = {} THEN 0 ELSE Len((CHOOSE x \in b2 : TRUE).w)
                bt2 == j <= Len(w) /\ MaxPartial(w, j, UNamesBy(w[j])) > l2 IN
            IF b2 = {} THEN [ok |-> FALSE, e |-> 0, u |-> "", next |-> j, bt |-> bt1 \/ bt2]
            ELSE LET nm == CHOOSE x \in b2 : TRUE IN
                 [ok |-> TRUE, e |-> p.e + nm.bias, u |-> nm.u, next |-> j + Len(nm.w), bt |-> bt1 \/ bt2]
RECURSIVE ParseWordFrom(_, _)
ParseWordFrom(w, i) == IF i > Len(w) THEN [ok |-> TRUE, r |-> <<>>, bt |-> FALSE]
                       ELSE LET one == ParseOne(w, i) IN
                            IF ~one.ok THEN [ok |-> FALSE, r |-> <<>>, bt |-> one.bt]
                            ELSE LET rest == ParseWordFrom(w, one.next) IN
                                 IF rest.ok THEN [ok |-> TRUE, r |-> <<[e |-> one.e, u |-> one.u]>> \o rest.r, bt |-> one.bt \/ rest.bt]
                                 ELSE [rest EXCEPT !.bt = one.bt \/ rest.bt]
ParseWord(w) == ParseWordFrom(w, 1)

\* ---- unit expressions over tokens (kinds as Lexer.tla; `texts[i]` the characters of token i)
\* state: [c compound, cur +1/-1, last unit key or "", seen set of keys, k "ok" | "err" | "ood"]
IntOfChars(cs) ==    \* small signed integer spelled by cs, or 1000000 if it is not one
  LET neg == Len(cs) >= 1 /\ cs[1] = "-"
      st == IF Len(cs) >= 1 /\ cs[1] \in {"+", "-"} THEN 2 ELSE 1
      okd == st <= Len(cs) /\ Len(cs) - st < 3 /\ \A j \in st..Len(cs) : cs[j] \in {"0","1","2","3","4","5","6","7","8","9"} IN
  IF ~okd THEN 1000000
  ELSE LET RECURSIVE V(_, _)
           V(j, acc) == IF j > Len(cs) THEN acc
                        ELSE V(j + 1, acc * 10 + (CASE cs[j] = "0" -> 0 [] cs[j] = "1" -> 1 [] cs[j] = "2" -> 2 [] cs[j] = "3" -> 3
                               [] cs[j] = "4" -> 4 [] cs[j] = "5" -> 5 [] cs[j] = "6" -> 6 [] cs[j] = "7" -> 7 [] cs[j] = "8" -> 8 [] cs[j] = "9" -> 9))
       IN IF neg THEN 0 - V(st, 0) ELSE V(st, 0)

RECURSIVE ApplyReading(_, _, _)
ApplyReading(st, r, j) ==
  IF j > Len(r) \/ st.k # "ok" THEN st
  ELSE LET u == r[j].u IN
       \* the same unit twice (`km/m`, `m m`): the tool's unit map cannot hold two prefixes for one unit and may refuse
       \* the expression; if it accepts it, the factors still multiply (`multi`, decided on SI value and dimensions)
       IF u \in st.seen THEN ApplyReading([st EXCEPT !.multi = TRUE, !.last = u, !.fs = Append(@, [u |-> u, e |-> r[j].e, pw |-> st.cur])], r, j + 1)
       ELSE ApplyReading([st EXCEPT !.c = Put(st.c, u, [pw |-> st.cur, px |-> r[j].e]), !.last = u, !.seen = @ \cup {u},
                                    !.fs = Append(@, [u |-> u, e |-> r[j].e, pw |-> st.cur])], r, j + 1)

RECURSIVE UnitExprFrom(_, _, _, _, _)
UnitExprFrom(kinds, texts, i, to, st) ==
  IF i >= to \/ st.k # "ok" THEN st
  ELSE LET k == kinds[i] IN
    IF k = "WHITESPACE" \/ k = "STAR" THEN UnitExprFrom(kinds, texts, i + 1, to, st)
    ELSE IF k = "SLASH" THEN UnitExprFrom(kinds, texts, i + 1, to, [st EXCEPT !.cur = 0 - st.cur])
    ELSE IF k = "NUMBER" THEN
         LET n == IntOfChars(texts[i]) IN
         IF n = 1000000 THEN [st EXCEPT !.k = "ood"]
         ELSE IF n # 1 THEN [st EXCEPT !.k = "err"]
         ELSE UnitExprFrom(kinds, texts, i + 1, to, st)
    ELSE IF k \in {"WORD", "TO"} THEN
         LET rs == Readings(texts[i])
             pw == ParseWord(texts[i]) IN
         IF rs = {} THEN [st EXCEPT !.k = "err"]
         ELSE IF Cardinality(rs) > 1 THEN [st EXCEPT !.k = "ood"]       \* ambiguous word: C05's business
         \* a readable word that the tool's longest-match procedure does not split that way may be rejected
         \* by the tool (allowed), or read differently (C05's business): not decided here
         ELSE IF ~pw.ok \/ pw.bt \/ pw.r # (CHOOSE r \in rs : TRUE) THEN [st EXCEPT !.k = "ood"]
         ELSE UnitExprFrom(kinds, texts, i + 1, to, ApplyReading(st, CHOOSE r \in rs : TRUE, 1))
    ELSE IF k \in {"CARET", "STARSTAR"} THEN
         \* `^n` applies to the unit it follows; blanks may separate `^` and n
         LET j == IF i + 1 < to /\ kinds[i + 1] = "WHITESPACE" THEN i + 2 ELSE i + 1 IN
         IF st.last = "" \/ j >= to \/ kinds[j] # "NUMBER" THEN [st EXCEPT !.k = "err"]
         ELSE LET n == IntOfChars(texts[j]) IN
              IF n = 1000000 THEN [st EXCEPT !.k = "ood"]
              ELSE IF n = 0 THEN [st EXCEPT !.k = "ood"]                 \* m^0: a zero power inside a unit, not specified
              ELSE UnitExprFrom(kinds, texts, j + 1, to,
                                [st EXCEPT !.c = IF st.multi THEN @ ELSE Put(st.c, st.last, [pw |-> n * st.cur, px |-> st.c[st.last].px]), !.last = "",
                                           !.fs = [@ EXCEPT ![Len(@)].pw = n * st.cur]])
    ELSE [st EXCEPT !.k = "err"]
UnitExpr(kinds, texts, from, to) ==
  UnitExprFrom(kinds, texts, from, to, [c |-> NoUnit, cur |-> 1, last |-> "", seen |-> {}, k |-> "ok", multi |-> FALSE, fs |-> <<>>])
\* scale and dimensions of a factor list <<[u, e, pw]>> (for expressions that name a unit more than once)
RECURSIVE ScaleOfList(_, _), DimsOfList(_, _)
ScaleOfList(fs, j) == IF j > Len(fs) THEN RInt(1)
                      ELSE RMul(RPow(RMul(RPow(RInt(10), fs[j].e), Fac(fs[j].u)), fs[j].pw), ScaleOfList(fs, j + 1))
DimsOfList(fs, j) == IF j > Len(fs) THEN Dim0
                     ELSE LET d == DimsOfList(fs, j + 1)
                              ud == UDim(fs[j].u) IN
                          TLCEval([b \in BaseSet |-> d[b] + fs[j].pw * ud[b]])
=============================================================================
