------------------------------ MODULE MC_Eval ------------------------------
(* Exhaustive model of numeric expressions (C01, and the grammar side of C06).

   Every expression tree with at most K binary operators over + - * / ^ and a fixed set of
   literal / percentage leaves is built (shapes and operators in Init, the leaves in Next so
   that the work is spread over TLC's workers), rendered to characters in several layouts
   (minimal parentheses as the precedence rules allow, or every operand parenthesised; with
   or without the optional blanks), and for every rendering TLC checks

     RenderParses   Lexer.tla + Grammar.tla read the characters back as exactly that tree
                    (precedence, associativity, grouping, optional blanks: the declarative
                    grammar agrees with the meaning of the rendering);
     ValueLayers    the value in F_p and the exact small rational of the same tree agree
                    (the two arithmetic layers of the specification check each other);
     DzPropagates   a division by an exact zero anywhere the evaluation reaches makes the
                    whole expression "dz"; "dz" is never turned into a value.

   With Emit = TRUE every rendering is printed as a VEC line; the harness evaluates each with
   the real library and Trace_Lang.tla compares (spec -> implementation replay).          *)
EXTENDS Eval, Json

CONSTANTS K,          \* maximal number of operators
          LeafSet,    \* which leaf alphabet: "full" or "small"
          LayoutSet,  \* "all": every layout; "two": minimal parentheses with blanks, full parentheses tight
          Emit

Lit(cs) == [t |-> "lit", cs |-> cs]
Pct(cs) == [t |-> "pct", cs |-> cs]
LeavesFull == {Lit(<<"0">>), Lit(<<"1">>), Lit(<<"2">>), Lit(<<"3">>), Lit(<<"-", "2">>), Lit(<<"0", ".", "5">>),
               Lit(<<"0", ".", "1">>), Pct(<<"2", "5">>)}
LeavesSmall == {Lit(<<"0">>), Lit(<<"2">>), Lit(<<"-", "3">>), Lit(<<".", "5">>)}
Leaves == IF LeafSet = "full" THEN LeavesFull ELSE LeavesSmall
Ops == {"+", "-", "*", "/", "^"}
Hole == [t |-> "hole"]

RECURSIVE Shapes(_)
Shapes(k) == IF k = 0 THEN {Hole}
             ELSE UNION {{[t |-> "bin", op |-> o, l |-> a, r |-> b] : o \in Ops, a \in Shapes(i), b \in Shapes(k - 1 - i)}
                         : i \in 0..(k - 1)}
RECURSIVE NHoles(_)
NHoles(x) == IF x.t = "hole" THEN 1 ELSE NHoles(x.l) + NHoles(x.r)
\* fill the holes left to right with ls[i..]
RECURSIVE Fill(_, _, _)
Fill(x, ls, i) == IF x.t = "hole" THEN [tree |-> ls[i], next |-> i + 1]
                  ELSE LET a == Fill(x.l, ls, i)
                           b == Fill(x.r, ls, a.next) IN
                       [tree |-> [t |-> "bin", op |-> x.op, l |-> a.tree, r |-> b.tree], next |-> b.next]

\* ---- meaning of a tree, directly (no lexer, no grammar)
RECURSIVE EvalTree(_)
EvalTree(x) ==
  CASE x.t = "lit" -> LitVal(x.cs)
    [] x.t = "pct" -> LET v == LitVal(x.cs) IN
                      IF IsVal(v) THEN Quantity(RDiv(v.v.si, RInt(100)), QDiv(v.v.q, <<100, 1>>), NoUnit) ELSE v
    [] x.t = "bin" -> LET r == EvalTree(x.r)
                          l == EvalTree(x.l) IN
                      IF r.k = "ood" \/ l.k = "ood" THEN Ood
                      ELSE IF ~IsVal(r) THEN r ELSE IF ~IsVal(l) THEN l ELSE Apply(x.op, l.v, r.v)

\* ---- rendering
OpPrio(o) == CASE o \in {"+", "-"} -> 2 [] o \in {"*", "/"} -> 3 [] o = "^" -> 10
Paren(cs) == <<"(">> \o cs \o <<")">>
LeafChars(x) == IF x.t = "pct" THEN x.cs \o <<"%">> ELSE x.cs
\* layouts: [par |-> "min" | "full", sp |-> "all" | "tight" | "wide"]
\*   tight: no blank around * / ^ (the blanks around + and - are not optional: `2 -3` is `2` and `-3`)
\*   wide : two blanks / a tab around operators, blanks inside parentheses, leading and trailing blanks
OpChars(o, sp) == IF o \in {"+", "-"} THEN (IF sp = "wide" THEN <<" ", " ", o, "\t">> ELSE <<" ", o, " ">>)
                  ELSE CASE sp = "all" -> <<" ", o, " ">> [] sp = "tight" -> <<o>> [] sp = "wide" -> <<"\t", o, " ", " ">>
ParenL(cs, sp) == IF sp = "wide" THEN <<"(", " ">> \o cs \o <<" ", " ", ")">> ELSE Paren(cs)
RECURSIVE Render(_, _)
Render(x, lay) ==
  IF x.t # "bin" THEN LeafChars(x)
  ELSE LET needL == x.l.t = "bin" /\ (lay.par = "full" \/ OpPrio(x.l.op) < OpPrio(x.op))
           needR == x.r.t = "bin" /\ (lay.par = "full" \/ OpPrio(x.r.op) <= OpPrio(x.op))
           a == Render(x.l, lay)
           b == Render(x.r, lay) IN
       (IF needL THEN ParenL(a, lay.sp) ELSE a) \o OpChars(x.op, lay.sp) \o (IF needR THEN ParenL(b, lay.sp) ELSE b)
RenderTop(x, lay) == IF lay.sp = "wide" THEN <<" ", "\t">> \o Render(x, lay) \o <<" ", " ">> ELSE Render(x, lay)
Layouts == IF LayoutSet = "all" THEN {[par |-> p, sp |-> s] : p \in {"min", "full"}, s \in {"all", "tight", "wide"}}
           ELSE {[par |-> "min", sp |-> "all"], [par |-> "full", sp |-> "tight"]}

\* ---- reading a rendering back
RECURSIVE AstTree(_, _, _)
AstTree(s, toks, a) ==
  CASE a.t = "num" -> Lit(Text(s, toks[a.i]))
    [] a.t = "pct" -> Pct(Text(s, toks[a.i]))
    [] a.t = "bin" -> [t |-> "bin", op |-> a.op, l |-> AstTree(s, toks, a.l), r |-> AstTree(s, toks, a.r)]
    [] OTHER -> [t |-> "other"]
ReadBack(s) == LET toks == Lex(s) IN AstTree(s, toks, One(toks))

RECURSIVE JoinChars(_, _)
JoinChars(cs, i) == IF i > Len(cs) THEN "" ELSE cs[i] \o JoinChars(cs, i + 1)

VARIABLES shape, tree
vars == <<shape, tree>>
None == [t |-> "none"]
Init == shape \in UNION {Shapes(k) : k \in 0..K} /\ tree = None
Next == /\ tree = None
        /\ \E ls \in [1..NHoles(shape) -> Leaves] : tree' = Fill(shape, ls, 1).tree
        /\ UNCHANGED shape
Spec == Init /\ [][Next]_vars

Built == tree # None
RenderParses == Built => \A lay \in Layouts : ReadBack(RenderTop(tree, lay)) = tree
ValueLayers == Built => LET v == EvalTree(tree) IN
                        IsVal(v) /\ Known(v.v.q) => REq(QRes(v.v.q), v.v.si)
\* does evaluation reach a division by exact zero (or 0 to a negative power)?  defined on the
\* exact layer only (all leaves are small), independent of Apply's own zero test
RECURSIVE ExactVal(_)
XQ(q) == IF Known(q) THEN [k |-> "q", q |-> q] ELSE [k |-> "big", q |-> Unknown]
XK(k) == [k |-> k, q |-> Unknown]
ExactVal(x) ==      \* [k |-> "q", q] or k = "dz" / "err" / "big"
  CASE x.t = "lit" -> XQ(LitQ(Denote(x.cs)))
    [] x.t = "pct" -> XQ(QDiv(LitQ(Denote(x.cs)), <<100, 1>>))
    [] x.t = "bin" ->
         LET r == ExactVal(x.r)
             l == ExactVal(x.l) IN
         IF r.k # "q" THEN r ELSE IF l.k # "q" THEN l
         ELSE CASE x.op = "+" -> XQ(QAdd(l.q, r.q)) [] x.op = "-" -> XQ(QSub(l.q, r.q)) [] x.op = "*" -> XQ(QMul(l.q, r.q))
                [] x.op = "/" -> IF r.q[1] = 0 THEN XK("dz") ELSE XQ(QDiv(l.q, r.q))
                [] x.op = "^" -> IF r.q[2] # 1 THEN XK("err")
                                 ELSE IF r.q[1] > 99 \/ r.q[1] < -99 THEN XK("big")
                                 ELSE IF r.q[1] = 0 THEN XQ(<<1, 1>>)
                                 ELSE IF l.q[1] = 0 THEN (IF r.q[1] < 0 THEN XK("dz") ELSE XQ(<<0, 1>>))
                                 ELSE XQ(QPow(l.q, r.q[1]))
DzPropagates == Built => LET e == ExactVal(tree)
                             v == EvalTree(tree) IN
                         /\ e.k = "dz" => v.k = "dz"
                         /\ e.k = "err" => v.k = "err"
                         /\ e.k = "q" => (IsVal(v) /\ v.v.q = e.q)
EmitInv == (Emit /\ Built) =>
             \A lay \in Layouts : PrintT(<<"VEC", ToJson([src |-> JoinChars(RenderTop(tree, lay), 1), par |-> lay.par, sp |-> lay.sp])>>)
=============================================================================
