------------------------------ MODULE MC_Eval ------------------------------
(* Exhaustive model of expressions, driven from the grammar side (C01, C06).

   Every expression tree with at most K binary operators (shapes and operators in Init, the
   leaves in Next so that the work is spread over TLC's workers) is rendered to characters in
   several layouts -- minimal parentheses as the precedence rules allow or every operand
   parenthesised; blanks around every operator, no optional blank at all, or several blanks /
   tabs plus blanks inside parentheses and at both ends -- and for every rendering TLC checks

     RenderParses   Lexer.tla + Grammar.tla read the characters back as exactly that tree
                    (precedence, associativity, grouping, optional blanks: the declarative
                    grammar agrees with the meaning of the rendering);
     ParserRefines  the transcription of the hand-written parser and of the evaluator's tree walk
                    (Parser.tla) computes exactly the grammar's reading from the same tokens;
     ValueLayers    the value in F_p and the exact small rational of the same tree agree
                    (the two arithmetic layers of the specification check each other);
     DzPropagates   a division by an exact zero anywhere the evaluation reaches makes the
                    whole expression "dz"; "dz" is never turned into a value.

   OpSet "arith": + - * / ^ ;  "cast": additionally `to` with a unit as right operand.
   LeafSet "full" / "small": literals and a percentage;  "primes": 2 3 5 7 (so that different
   groupings of the same operator string have different values) plus a function call.
   With Emit = TRUE every rendering is printed as a VEC line; the harness evaluates each with
   the real library and Trace_Lang.tla compares (spec -> implementation replay).          *)
EXTENDS Eval, Parser, Json

CONSTANTS K,          \* maximal number of operators
          KMin,       \* minimal number of operators (trees below are not built)
          LeafSet,    \* "full", "small", "primes"
          OpSet,      \* "arith", "cast"
          LayoutSet,  \* "all": every layout; "two": minimal parentheses with blanks, full parentheses tight
          Emit

Lit(cs) == [t |-> "lit", cs |-> cs]
Pct(cs) == [t |-> "pct", cs |-> cs]
UnitLeaf(cs) == [t |-> "unit", cs |-> cs]
Bin(o, a, b) == [t |-> "bin", op |-> o, l |-> a, r |-> b]
Call(fn, a) == [t |-> "call", fn |-> fn, a |-> a]
Qty(cs, us) == [t |-> "qty", cs |-> cs, us |-> us]            \* a number with a unit word
LeavesFull == {Lit(<<"0">>), Lit(<<"1">>), Lit(<<"2">>), Lit(<<"3">>), Lit(<<"-", "2">>), Lit(<<"0", ".", "5">>),
               Lit(<<"0", ".", "1">>), Pct(<<"2", "5">>)}
LeavesSmall == {Lit(<<"0">>), Lit(<<"2">>), Lit(<<"-", "3">>), Lit(<<".", "5">>)}
LeavesPrimes == {Lit(<<"2">>), Lit(<<"3">>), Lit(<<"5">>), Lit(<<"7">>),
                 Call(<<"r", "o", "u", "n", "d">>, Bin("/", Lit(<<"7">>), Lit(<<"2">>)))}
\* "pos": one assignment only -- the i-th leaf is the i-th prime (operator sequences up to length 5
\* with every placement of parentheses stay enumerable)
PosLeaves == <<Lit(<<"2">>), Lit(<<"3">>), Lit(<<"5">>), Lit(<<"7">>), Lit(<<"1", "1">>), Lit(<<"1", "3">>), Lit(<<"1", "7">>)>>
\* "qty": quantities of two dimensions, prefixed and not, a derived unit, and a plain number
LeavesQty == {Qty(<<"2">>, <<"m">>), Qty(<<"3">>, <<"k", "m">>), Qty(<<"5">>, <<"s">>), Qty(<<"0", ".", "5">>, <<"m", "i", "n">>),
              Qty(<<"7">>, <<"N">>), Lit(<<"4">>)}
LeafAlphabet == CASE LeafSet = "full" -> LeavesFull [] LeafSet = "small" -> LeavesSmall [] LeafSet = "primes" -> LeavesPrimes
                  [] LeafSet = "pos" -> {PosLeaves[1]} [] LeafSet = "qty" -> LeavesQty
LeafChoices(n) == IF LeafSet = "pos" THEN {[i \in 1..n |-> PosLeaves[i]]} ELSE [1..n -> LeafAlphabet]
UnitLeaves == IF LeafSet = "pos" THEN {UnitLeaf(<<"k", "m">>)} ELSE {UnitLeaf(<<"m">>), UnitLeaf(<<"k", "m">>), UnitLeaf(<<"s">>)}
Ops == {"+", "-", "*", "/", "^"}
Hole == [t |-> "hole"]
UHole == [t |-> "uhole"]

RECURSIVE Shapes(_)
Shapes(k) == IF k = 0 THEN {Hole}
             ELSE UNION {{Bin(o, a, b) : o \in Ops, a \in Shapes(i), b \in Shapes(k - 1 - i)} : i \in 0..(k - 1)}
                  \cup (IF OpSet = "cast" THEN {Bin("to", a, UHole) : a \in Shapes(k - 1)} ELSE {})
RECURSIVE NHoles(_), NUHoles(_)
NHoles(x) == IF x.t = "hole" THEN 1 ELSE IF x.t = "uhole" THEN 0 ELSE NHoles(x.l) + NHoles(x.r)
NUHoles(x) == IF x.t = "uhole" THEN 1 ELSE IF x.t = "hole" THEN 0 ELSE NUHoles(x.l) + NUHoles(x.r)
\* fill the holes left to right with ls[i..], the unit holes with us[j..]
RECURSIVE Fill(_, _, _, _, _)
Fill(x, ls, i, us, j) ==
  IF x.t = "hole" THEN [tree |-> ls[i], i |-> i + 1, j |-> j]
  ELSE IF x.t = "uhole" THEN [tree |-> us[j], i |-> i, j |-> j + 1]
  ELSE LET a == Fill(x.l, ls, i, us, j)
           b == Fill(x.r, ls, a.i, us, a.j) IN
       [tree |-> Bin(x.op, a.tree, b.tree), i |-> b.i, j |-> b.j]

\* ---- meaning of a tree, directly (no lexer, no grammar)
UnitOfChars(cs) == LET rs == Readings(cs) IN CHOOSE r \in rs : TRUE      \* m, km, s: one reading each
CompoundOfLeaf(cs) == LET r == UnitOfChars(cs) IN TLCEval([u \in {r[1].u} |-> [pw |-> 1, px |-> r[1].e]])
RECURSIVE EvalTree(_)
EvalTree(x) ==
  CASE x.t = "lit" -> LitVal(x.cs)
    [] x.t = "pct" -> LET v == LitVal(x.cs) IN
                      IF IsVal(v) THEN Quantity(RDiv(v.v.si, RInt(100)), QDiv(v.v.q, <<100, 1>>), NoUnit) ELSE v
    [] x.t = "qty" -> LET v == LitVal(x.cs) IN
                      IF IsVal(v) THEN Quantity(v.v.si, v.v.q, CompoundOfLeaf(x.us)) ELSE v
    [] x.t = "call" -> LET a == EvalTree(x.a) IN IF IsVal(a) THEN Builtin(FnName(x.fn), <<a.v>>) ELSE a
    [] x.t = "bin" /\ x.op = "to" -> LET l == EvalTree(x.l) IN
                                     IF ~IsVal(l) THEN l ELSE Cast(l.v, CompoundOfLeaf(x.r.cs))
    [] x.t = "bin" /\ x.op # "to" ->
                      LET r == EvalTree(x.r)
                          l == EvalTree(x.l) IN
                      IF r.k = "ood" \/ l.k = "ood" THEN Ood
                      ELSE IF ~IsVal(r) THEN r ELSE IF ~IsVal(l) THEN l ELSE Apply(x.op, l.v, r.v)

\* ---- rendering
OpPrio(o) == CASE o = "to" -> 1 [] o \in {"+", "-"} -> 2 [] o \in {"*", "/"} -> 3 [] o = "^" -> 10
\* layouts: [par |-> "min" | "full", sp |-> "all" | "tight" | "wide"]
\*   tight: no blank around * / ^ , parentheses and commas (the blanks around + - and `to` are not
\*          optional: `2 -3` is `2` and `-3`, `tom` is a word)
\*   wide : two blanks / a tab around operators, blanks inside parentheses, leading and trailing blanks
OpChars(o, sp) == IF o \in {"+", "-"} THEN (IF sp = "wide" THEN <<" ", " ", o, "\t">> ELSE <<" ", o, " ">>)
                  ELSE IF o = "to" THEN (IF sp = "wide" THEN <<" ", " ", "t", "o", " ", " ">> ELSE <<" ", "t", "o", " ">>)
                  ELSE CASE sp = "all" -> <<" ", o, " ">> [] sp = "tight" -> <<o>> [] sp = "wide" -> <<"\t", o, " ", " ">>
ParenL(cs, sp) == IF sp = "wide" THEN <<"(", " ">> \o cs \o <<" ", " ", ")">> ELSE <<"(">> \o cs \o <<")">>
RECURSIVE Render(_, _)
Render(x, lay) ==
  CASE x.t = "lit" -> x.cs
    [] x.t = "pct" -> x.cs \o <<"%">>
    [] x.t = "unit" -> x.cs
    [] x.t = "qty" -> x.cs \o (IF lay.sp = "wide" THEN <<" ">> ELSE <<>>) \o x.us
    \* (in the "full" layout the argument is itself wholly parenthesised: round((7/2)))
    [] x.t = "call" -> x.fn \o ParenL(IF lay.par = "full" THEN ParenL(Render(x.a, lay), lay.sp) ELSE Render(x.a, lay), lay.sp)
    [] x.t = "bin" ->
       LET needL == x.l.t = "bin" /\ (lay.par = "full" \/ OpPrio(x.l.op) < OpPrio(x.op))
           needR == x.r.t = "bin" /\ (lay.par = "full" \/ OpPrio(x.r.op) <= OpPrio(x.op))
           a == Render(x.l, lay)
           b == Render(x.r, lay) IN
       (IF needL THEN ParenL(a, lay.sp) ELSE a) \o OpChars(x.op, lay.sp) \o (IF needR THEN ParenL(b, lay.sp) ELSE b)
RenderTop(x, lay) == IF lay.sp = "wide" THEN <<" ", "\t">> \o Render(x, lay) \o <<" ", " ">> ELSE Render(x, lay)
\* (with quantities as leaves an operator needs a blank before it, or the unit would swallow it: no tight layout)
Layouts == IF LayoutSet = "spaced" THEN {[par |-> p, sp |-> s] : p \in {"min", "full"}, s \in {"all", "wide"}}
           ELSE IF LayoutSet = "spaced1" THEN {[par |-> "min", sp |-> "all"]}
           ELSE IF LayoutSet = "all" THEN {[par |-> p, sp |-> s] : p \in {"min", "full"}, s \in {"all", "tight", "wide"}}
           ELSE {[par |-> "min", sp |-> "all"], [par |-> "full", sp |-> "tight"]}

\* ---- reading a rendering back
RECURSIVE JoinSeqs(_, _, _)
JoinSeqs(s, toks, i) == IF i[1] >= i[2] THEN <<>> ELSE Text(s, toks[i[1]]) \o JoinSeqs(s, toks, <<i[1] + 1, i[2]>>)
RECURSIVE AstTree(_, _, _)
AstTree(s, toks, a) ==
  CASE a.t = "num" -> Lit(Text(s, toks[a.i]))
    [] a.t = "pct" -> Pct(Text(s, toks[a.i]))
    [] a.t = "bin" -> Bin(a.op, AstTree(s, toks, a.l), AstTree(s, toks, a.r))
    [] a.t = "qty" -> Qty(Text(s, toks[a.i]), JoinSeqs(s, toks, a.u))
    [] a.t = "cast" -> Bin("to", AstTree(s, toks, a.l), UnitLeaf(JoinSeqs(s, toks, a.u)))
    [] a.t = "call" -> IF Len(a.args) = 1 THEN Call(Text(s, toks[a.i]), AstTree(s, toks, a.args[1])) ELSE [t |-> "other"]
    [] OTHER -> [t |-> "other"]
ReadBack(s) == LET toks == Lex(s) IN AstTree(s, toks, One(toks))

RECURSIVE JoinChars(_, _)
JoinChars(cs, i) == IF i > Len(cs) THEN "" ELSE cs[i] \o JoinChars(cs, i + 1)

VARIABLES shape, tree
vars == <<shape, tree>>
NoTree == [t |-> "none"]
Init == shape \in UNION {Shapes(k) : k \in KMin..K} /\ tree = NoTree
Next == /\ tree = NoTree
        /\ \E ls \in LeafChoices(NHoles(shape)), us \in [1..NUHoles(shape) -> UnitLeaves] : tree' = Fill(shape, ls, 1, us, 1).tree
        /\ UNCHANGED shape
Spec == Init /\ [][Next]_vars

Built == tree # NoTree
RenderParses == Built => \A lay \in Layouts : ReadBack(RenderTop(tree, lay)) = tree
ParserRefines == Built => \A lay \in Layouts : LET ks == TokKinds(Lex(RenderTop(tree, lay))) IN Refines(ks) /\ Lossless(ks)
ValueLayers == Built => LET v == EvalTree(tree) IN
                        (IsVal(v) /\ Known(v.v.q) /\ ~v.v.free) => REq(RMul(QRes(v.v.q), Scale(v.v.u)), v.v.si)
\* does evaluation reach a division by exact zero (or 0 to a negative power)?  defined on the
\* exact layer only (all leaves are small), independent of Apply's own zero test
RECURSIVE ExactVal(_)
XQ(q) == IF Known(q) THEN [k |-> "q", q |-> q] ELSE [k |-> "big", q |-> Unknown]
XK(k) == [k |-> k, q |-> Unknown]
ExactVal(x) ==      \* [k |-> "q", q] or k = "dz" / "err" / "big"
  CASE x.t = "lit" -> XQ(LitQ(Denote(x.cs)))
    [] x.t = "pct" -> XQ(QDiv(LitQ(Denote(x.cs)), <<100, 1>>))
    [] x.t = "qty" -> XK("big")
    [] x.t = "call" -> LET a == ExactVal(x.a) IN
                       IF a.k = "q" /\ FnName(x.fn) = "round" THEN XQ(QInt(QRound(a.q))) ELSE IF a.k = "q" THEN XK("big") ELSE a
    [] x.t = "bin" /\ x.op = "to" -> LET l == ExactVal(x.l) IN IF l.k = "q" THEN XK("big") ELSE l
    [] x.t = "bin" /\ x.op # "to" ->
         LET r == ExactVal(x.r)
             l == ExactVal(x.l) IN
         IF r.k # "q" THEN r ELSE IF l.k # "q" THEN l
         ELSE CASE x.op = "+" -> XQ(QAdd(l.q, r.q)) [] x.op = "-" -> XQ(QSub(l.q, r.q)) [] x.op = "*" -> XQ(QMul(l.q, r.q))
                [] x.op = "/" -> IF r.q[1] = 0 THEN XK("dz") ELSE XQ(QDiv(l.q, r.q))
                [] x.op = "^" -> IF r.q[2] # 1 THEN XK("err")
                                 ELSE IF r.q[1] > 99 \/ r.q[1] < -99 THEN XK("big")
                                 ELSE IF r.q[1] = 0 THEN XQ(<<1, 1>>)
                                 ELSE IF l.q[1] = 0 THEN (IF r.q[1] < 0 THEN XK("dz") ELSE XQ(<<0, 1>>))
                                 ELSE XQ(QPow(l.q, r.q[1]))
DzPropagates == Built => LET e == ExactVal(tree)
                             v == EvalTree(tree) IN
                         /\ e.k = "dz" => v.k = "dz"
                         /\ e.k = "err" => v.k = "err"
                         /\ e.k = "q" => (IsVal(v) /\ v.v.q = e.q)
\* every exponent the evaluation meets is a known integer of at most two digits (the tool computes a
\* power by repeated multiplication: larger exponents are outside the explored domain and are not replayed)
RECURSIVE Tame(_)
Tame(x) == CASE x.t = "bin" /\ x.op = "^" -> LET e == ExactVal(x.r) IN
                                             /\ Tame(x.l) /\ Tame(x.r)
                                             /\ (e.k \in {"dz", "err"} \/ (e.k = "q" /\ (e.q[2] # 1 \/ (e.q[1] <= 99 /\ e.q[1] >= -99))))
             [] x.t = "bin" /\ x.op = "to" -> Tame(x.l)
             [] x.t = "bin" /\ x.op \notin {"^", "to"} -> Tame(x.l) /\ Tame(x.r)
             [] x.t = "call" -> Tame(x.a)
             [] OTHER -> TRUE
EmitInv == (Emit /\ Built /\ Tame(tree)) =>
             \A lay \in Layouts : PrintT(<<"VEC", ToJson([src |-> JoinChars(RenderTop(tree, lay), 1), par |-> lay.par, sp |-> lay.sp,
                                                          k |-> EvalTree(tree).k])>>)
=============================================================================
