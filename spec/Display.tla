------------------------------ MODULE Display ------------------------------
(* Decimal rendering of a rational (src/rational/display.rs), C08.

   A value is  (-1)^neg * (n / d) * 10^k  with small naturals n, d (d > 0) and a small integer k,
   so magnitudes from 1e-40 to 1e40 and repeating expansions need no big numbers: the digit
   stream of n/d is produced by long division and the point is moved k places.

   Declarative layer
     ReadText(cs)   reads printed characters back as a decimal: sign, all printed digits, the
                    power of ten of the last printed digit, the continuation mark
     Truth(..)      the digits of |value| cut off toward zero at a given power of ten, and whether
                    anything non-zero was cut
     Faithful(..)   C08: the text read back is exactly Truth at the last printed digit, the mark is
                    there iff something non-zero was cut, the sign is right
   Operational layer
     Render(..)     the three paths of `impl fmt::Display for Display` producing the characters:
                    format_big (scientific), format_whole, and the leading-zero loop with its
                    `takes_exp` / `init` / `dot` flags -- one recursion step per loop iteration.
   The as-pinned constants re-create the three defects repaired in /repo.                   *)
EXTENDS Integers, Sequences, TLC

CONSTANTS OneDigitLookahead,   \* as pinned: the leading-zero loop pulled a digit past its budget and dropped it
          BigIgnoresFraction,  \* as pinned: format_big with no budget left ignored a non-zero fraction
          BigMarksZeros        \* as pinned: format_big marked cut integer digits even when all were zero

DChar(x) == CASE x = 0 -> "0" [] x = 1 -> "1" [] x = 2 -> "2" [] x = 3 -> "3" [] x = 4 -> "4" [] x = 5 -> "5"
              [] x = 6 -> "6" [] x = 7 -> "7" [] x = 8 -> "8" [] x = 9 -> "9"
DVal(c) == CASE c = "0" -> 0 [] c = "1" -> 1 [] c = "2" -> 2 [] c = "3" -> 3 [] c = "4" -> 4 [] c = "5" -> 5
             [] c = "6" -> 6 [] c = "7" -> 7 [] c = "8" -> 8 [] c = "9" -> 9
DigitCh == {"0", "1", "2", "3", "4", "5", "6", "7", "8", "9"}
RECURSIVE IntDigits(_)
IntDigits(x) == IF x < 10 THEN <<x>> ELSE Append(IntDigits(x \div 10), x % 10)
Chars(ds) == [i \in 1..Len(ds) |-> DChar(ds[i])]
IntChars(x) == IF x < 0 THEN <<"-">> \o Chars(IntDigits(0 - x)) ELSE Chars(IntDigits(x))
AllZero(s) == \A i \in 1..Len(s) : s[i] = 0
Take(s, j) == SubSeq(s, 1, IF j < Len(s) THEN j ELSE Len(s))
Drop(s, j) == SubSeq(s, j + 1, Len(s))
Zeros(j) == [i \in 1..j |-> 0]
RECURSIVE Pow10(_)
Pow10(j) == IF j = 0 THEN 1 ELSE 10 * Pow10(j - 1)

\* ---------------------------------------------------------------- the value as a digit stream
\* |value| = (n/d) * 10^k.  Digits(n, d, k): integer digits `ip` (no leading zeros, <<0>> for zero)
\* and a generator state for the fraction: either pending shifted-in digits or a division remainder.
\* For k >= 0 the numerator is n * 10^k (kept small by the caller's grid: n * 10^k * 10 < 2^31 is
\* not required -- instead the integer part is produced digit by digit):
\*   integer part of (n/d)*10^k = IntDigits(n div d) ++ first k fraction digits of n/d
\*   remainder state continues the same long division.
\* For k < 0 the integer part of n/d is shifted right: its last |k| digits become fraction digits.
RECURSIVE FracStep(_, _, _, _)
FracStep(rem, d, j, acc) == IF j = 0 THEN [ds |-> acc, rem |-> rem]       \* exactly j digits (zeros once rem = 0)
                            ELSE FracStep((rem * 10) % d, d, j - 1, Append(acc, (rem * 10) \div d))
RECURSIVE StripL(_)
StripL(s) == IF Len(s) > 1 /\ s[1] = 0 THEN StripL(Tail(s)) ELSE s
\* [ip, pend, rem]: integer digits; fraction digits already known (pend, from the shift); then rem/d continues
Stream(n, d, k) ==
  LET ip0 == IntDigits(n \div d)
      rem0 == n % d IN
  IF k >= 0 THEN LET f == FracStep(rem0, d, k, <<>>) IN [ip |-> StripL(ip0 \o f.ds), pend |-> <<>>, rem |-> f.rem]
  ELSE LET m == 0 - k
           padded == Zeros(IF m > Len(ip0) THEN m - Len(ip0) ELSE 0) \o ip0
           cutAt == Len(padded) - m IN
       [ip |-> IF cutAt = 0 THEN <<0>> ELSE StripL(Take(padded, cutAt)), pend |-> Drop(padded, cutAt), rem |-> rem0]
\* is the fraction of a stream state zero?
FracZero(s) == AllZero(s.pend) /\ s.rem = 0
\* next fraction digit: [dg, s]
NextDigit(s, d) == IF s.pend # <<>> THEN [dg |-> s.pend[1], s |-> [s EXCEPT !.pend = Tail(@)]]
                   ELSE [dg |-> (s.rem * 10) \div d, s |-> [s EXCEPT !.rem = (s.rem * 10) % d]]
\* `emit`: yields digits while the remainder is non-zero; up to j digits: [ds, s]
RECURSIVE EmitDigits(_, _, _, _)
EmitDigits(s, d, j, acc) == IF j = 0 \/ FracZero(s) THEN [ds |-> acc, s |-> s]
                      ELSE LET x == NextDigit(s, d) IN EmitDigits(x.s, d, j - 1, Append(acc, x.dg))

\* ---------------------------------------------------------------- declarative layer
\* digits of floor(|value| / 10^scale) and whether anything non-zero lies below 10^scale
Truth(n, d, k, scale) ==
  LET s == Stream(n, d, k) IN
  IF scale <= 0 THEN LET f == EmitDigits(s, d, 0 - scale, <<>>) IN
                     [ds |-> s.ip \o f.ds \o Zeros((0 - scale) - Len(f.ds)), cut |-> ~FracZero(f.s)]
  ELSE IF scale >= Len(s.ip) THEN [ds |-> <<0>>, cut |-> ~(AllZero(s.ip) /\ FracZero(s))]
  ELSE [ds |-> Take(s.ip, Len(s.ip) - scale), cut |-> ~AllZero(Drop(s.ip, Len(s.ip) - scale)) \/ ~FracZero(s)]

\* reading printed text:  [-] digits [. digits] [ELL] [e [-] digits]
RECURSIVE Span(_, _)
Span(cs, i) == IF i <= Len(cs) /\ cs[i] \in DigitCh THEN Span(cs, i + 1) ELSE i
RECURSIVE NumOf(_, _, _)
NumOf(cs, i, acc) == IF i > Len(cs) THEN acc ELSE NumOf(cs, i + 1, acc * 10 + DVal(cs[i]))
ReadText(cs) ==
  LET neg == Len(cs) >= 1 /\ cs[1] = "-"
      a == IF neg THEN 2 ELSE 1
      b == Span(cs, a)                                   \* end of integer digits
      hasP == b <= Len(cs) /\ cs[b] = "."
      c == IF hasP THEN b + 1 ELSE b
      e == Span(cs, c)                                   \* end of fraction digits
      mark == e <= Len(cs) /\ cs[e] = "ELL"
      f == IF mark THEN e + 1 ELSE e
      hasE == f <= Len(cs) /\ cs[f] = "e"
      eneg == hasE /\ f + 1 <= Len(cs) /\ cs[f + 1] = "-"
      g == IF hasE THEN (IF eneg THEN f + 2 ELSE f + 1) ELSE f
      h == Span(cs, g)
      ex == IF hasE THEN (IF eneg THEN 0 - NumOf(SubSeq(cs, g, h - 1), 1, 0) ELSE NumOf(SubSeq(cs, g, h - 1), 1, 0)) ELSE 0 IN
  [ok |-> h = Len(cs) + 1 /\ (b > a \/ e > c) /\ (hasP => e > c) /\ (hasE => h > g),
   neg |-> neg, ds |-> [i \in 1..((b - a) + (e - c)) |-> DVal(IF i <= b - a THEN cs[a + i - 1] ELSE cs[c + (i - (b - a)) - 1])],
   scale |-> ex - (e - c), mark |-> mark]

IsZeroValue(n) == n = 0
Faithful(neg, n, d, k, cs) ==
  LET r == ReadText(cs) IN
  /\ r.ok
  /\ LET t == Truth(n, d, k, r.scale) IN
     /\ StripL(r.ds) = StripL(t.ds)
     /\ r.mark <=> t.cut
     /\ r.neg <=> (neg /\ ~IsZeroValue(n))

\* ---------------------------------------------------------------- operational layer: display.rs
DigitsFn(ip) == Len(ip) - 1                    \* fn digits(): number of digits of `div`, minus one

FormatBig(neg, s, d, limit) ==
  LET ip == s.ip
      rest == Tail(ip)
      used == IF limit < Len(rest) THEN limit ELSE Len(rest)
      more == Len(rest) > used                                  \* it.peek().is_some()
      remaining == limit - used
      f == IF ~more /\ remaining > 0 THEN EmitDigits(s, d, remaining, <<>>) ELSE [ds |-> <<>>, s |-> s]
      dot == IF more THEN (IF BigMarksZeros THEN TRUE ELSE ~AllZero(Drop(rest, used)) \/ ~FracZero(s))
             ELSE IF remaining > 0 THEN ~FracZero(f.s)
             ELSE (IF BigIgnoresFraction THEN FALSE ELSE ~FracZero(s))
      exp == (Len(rest) - used) + used IN
  (IF neg THEN <<"-">> ELSE <<>>) \o <<DChar(ip[1])>> \o (IF Len(rest) > 0 THEN <<".">> ELSE <<>>)
    \o Chars(Take(rest, used)) \o Chars(f.ds) \o (IF dot THEN <<"ELL">> ELSE <<>>)
    \o (IF exp > 0 THEN <<"e">> \o IntChars(exp) ELSE <<>>)

FormatWhole(neg, s, d, limit) ==
  LET head == (IF neg THEN <<"-">> ELSE <<>>) \o Chars(s.ip) IN
  IF FracZero(s) THEN head
  ELSE LET f == IF limit > 0 THEN EmitDigits(s, d, limit, <<>>) ELSE [ds |-> <<>>, s |-> s] IN
       head \o (IF limit > 0 THEN <<".">> \o Chars(f.ds) ELSE <<>>) \o (IF ~FracZero(f.s) THEN <<"ELL">> ELSE <<>>)

\* the leading-zero loop; st = [s, exp, init, dot, takes, n, out]
RECURSIVE SmallLoop(_, _, _, _)
SmallLoop(st, d, neg, el) ==
  IF st.n = 0 /\ ~OneDigitLookahead THEN st
  ELSE IF FracZero(st.s) THEN st                                   \* digits.next() is None
  ELSE LET x == NextDigit(st.s, d) IN
       IF st.n = 0 THEN [st EXCEPT !.s = x.s]                       \* as pinned: the digit is pulled, then dropped
       ELSE IF x.dg = 0 /\ st.takes THEN SmallLoop([st EXCEPT !.s = x.s, !.exp = @ - 1], d, neg, el)
       ELSE LET st1 == [st EXCEPT !.s = x.s, !.takes = FALSE, !.n = @ - 1] IN
            IF st.init THEN
                 LET sign == IF neg THEN <<"-">> ELSE <<>>
                     absexp == 0 - st.exp IN
                 IF absexp >= el
                 THEN SmallLoop([st1 EXCEPT !.init = FALSE, !.out = sign \o <<DChar(x.dg)>>], d, neg, el)
                 ELSE SmallLoop([st1 EXCEPT !.init = FALSE, !.dot = FALSE, !.exp = 0,
                                            !.out = sign \o <<"0", ".">> \o Chars(Zeros((0 - 1) - st.exp)) \o <<DChar(x.dg)>>], d, neg, el)
            ELSE SmallLoop([st1 EXCEPT !.dot = FALSE, !.out = @ \o (IF st.dot THEN <<".">> ELSE <<>>) \o <<DChar(x.dg)>>], d, neg, el)
FormatSmall(neg, s, d, limit, el) ==
  LET st == SmallLoop([s |-> s, exp |-> -1, init |-> TRUE, dot |-> TRUE, takes |-> TRUE, n |-> limit, out |-> <<>>], d, neg, el) IN
  st.out \o (IF ~FracZero(st.s) THEN <<"ELL">> ELSE <<>>) \o (IF st.exp # 0 THEN <<"e">> \o IntChars(st.exp) ELSE <<>>)

Render(neg, n, d, k, limit, el) ==
  LET s == Stream(n, d, k) IN
  IF DigitsFn(s.ip) >= el THEN FormatBig(neg, s, d, limit)
  ELSE IF ~AllZero(s.ip) \/ FracZero(s) THEN FormatWhole(neg, s, d, limit)
  ELSE FormatSmall(neg, s, d, limit, el)
Path(n, d, k, el) == LET s == Stream(n, d, k) IN
                     IF DigitsFn(s.ip) >= el THEN "big" ELSE IF ~AllZero(s.ip) \/ FracZero(s) THEN "whole" ELSE "small"
=============================================================================
