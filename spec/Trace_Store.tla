---------------------------- MODULE Trace_Store ----------------------------
(* Implementation -> specification for Store.tla (C15, store half of C14).

   The trace (ndjson, one event per line, file named by env TRACE) is what the hooks
   `crate::verif::store_step` recorded in real runs of the tool under fault / kill
   schedules, bracketed by harness events:
     reset(meta, idx)   a new private data directory was set up in that state
     fault(what)        the harness damaged the directory while the tool was stopped
     <hook name>        a step of open_inner / open_index / write_meta completed
     add_documents(from,to)  a run of consecutive add_document events, compressed
     crash | exit       the process was killed at its kill point / ended normally
     answers(fresh)     after a start that became ready: did it answer like a fresh db?
   Steps the hooks do not report (Decide, TryOpenFail, RemoveDirPartial) are silent actions.

   The trace is accepted iff some behaviour of Store consumes every line.  TLC is asked to
   "violate" NotDone; the highest line reached is kept in TLC register 1 for diagnosis.   *)
EXTENDS Store, Json, IOUtils, TLCExt, Integers

Rec == ndJsonDeserialize(IOEnv.TRACE)
\* number of shipped documents, from the harness (env NDOCS)
TraceNDocs == CHOOSE n \in 0..100000 : ToString(n) = IOEnv.NDOCS

VARIABLE l
tvars == <<vars, l>>

Ev(name) == l <= Len(Rec) /\ Rec[l].ev = name /\ l' = l + 1
Silent(A) == A /\ l' = l

TReset == /\ Ev("reset") /\ pc = "stopped"
          /\ meta' = Rec[l].meta /\ idx' = Rec[l].idx
          /\ UNCHANGED <<pc, mem, rmeta, rebuild, staged, deleted, view, ram, faults, crashes>>
TFault == /\ Ev("fault") /\ Fault
          /\ LET w == Rec[l].what IN
             \/ w = "meta_Absent" /\ meta' = "Absent"
             \/ w = "meta_Garbage" /\ meta' = "Garbage"
             \/ w = "meta_NoHash" /\ meta' = "NoHash"
             \/ w = "idx_Absent" /\ idx' = "Absent"
TAddDocs == /\ Ev("add_documents") /\ pc = "adddocs"
            /\ staged = Rec[l].from - 1 /\ Rec[l].to <= NDocs /\ Rec[l].from <= Rec[l].to
            /\ staged' = Rec[l].to
            /\ UNCHANGED <<meta, idx, pc, mem, rmeta, rebuild, deleted, view, ram, faults, crashes>>
TAnswers == /\ Ev("answers") /\ pc = "ready"
            /\ Rec[l].fresh = (view = "New")
            /\ UNCHANGED vars

TNext ==
  \/ TReset \/ TFault \/ TAddDocs \/ TAnswers
  \/ (Ev("open_memory") /\ Start(TRUE)) \/ (Ev("open_disk") /\ Start(FALSE))
  \/ (Ev("read_meta") /\ ReadMeta)
  \/ (Ev("opened_index") /\ TryOpenOk)
  \/ (Ev("meta_invalidated") /\ Invalidate)
  \/ (Ev("before_remove_index") /\ RemoveDirBegin)
  \/ (Ev("after_remove_index") /\ (RemoveDirEnd \/ RemoveDirSkip))
  \/ (Ev("after_create_dir") /\ CreateDir)
  \/ (Ev("after_create_index") /\ CreateIndex)
  \/ (Ev("delete_all") /\ DeleteAll)
  \/ (Ev("before_commit") /\ AllAdded)
  \/ (Ev("after_commit") /\ Commit)
  \/ (Ev("after_reload") /\ Reload)
  \/ (Ev("meta_truncated") /\ TruncMeta)
  \/ (Ev("after_write_meta") /\ WriteMeta)
  \/ (Ev("ready") /\ Finish)
  \/ (Ev("exit") /\ Exit)
  \/ (Ev("crash") /\ Crash)
  \/ Silent(Decide) \/ Silent(TryOpenFail) \/ Silent(RemoveDirPartial)

TInit == Init /\ meta = "Absent" /\ idx = "Absent" /\ l = 1 /\ TLCSet(1, 0)
TSpec == TInit /\ [][TNext]_tvars

\* accepted <=> some behaviour reaches l = Len(Rec) + 1
\* remember how far any behaviour got (workers 1)
Progress == TLCSet(1, IF TLCGet(1) < l THEN l ELSE TLCGet(1))
Report == PrintT(<<"REACHED", TLCGet(1), Len(Rec)>>)
Accepted == TLCGet(1) = Len(Rec) + 1
=============================================================================
