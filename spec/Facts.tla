-------------------------------- MODULE Facts --------------------------------
(* The fact database as the query language sees it (C16, C18).

   A phrase is a sequence of words.  It can be *typed* iff the lexer turns its spelling (words joined
   by single blanks) into WORD (WHITESPACE (WORD | NUMBER))* and the documented grammar reads those
   tokens as one phrase covering all of them.
   Lookup contract (C16): asking for exactly the words of a shipped constant returns a constant
   that carries all of those words, completely decoded.  The ranking function itself (BM25 over
   n-grams) is not modelled; the contract is validated on every shipped constant.              *)
EXTENDS Lexer, Grammar
SetOf(s) == {s[i] : i \in 1..Len(s)}
Typable(chars) == LET toks == Lex(chars)
                      g == One(toks) IN
                  /\ Len(toks) >= 1
                  /\ \A i \in 1..Len(toks) : toks[i].k \in {"WORD", "WHITESPACE", "NUMBER"}
                  /\ toks[1].k = "WORD"
                  /\ g.t = "phrase" /\ g.u = <<1, Len(toks) + 1>>
Carries(tokens, words) == SetOf(words) \subseteq SetOf(tokens)
=============================================================================
