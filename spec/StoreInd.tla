------------------------------ MODULE StoreInd ------------------------------
(* C15 without bounds: an inductive invariant of Store.tla (the repaired protocol, any number of external
   faults and kills, ANY number NDocs >= 1 of shipped documents), discharged by Apalache:

     (1) Init => IndInv                       apalache-mc check --cinit=ConstInit --init=Init    --inv=IndInv --length=0
     (2) IndInv /\ Next => IndInv'            apalache-mc check --cinit=ConstInit --init=IndInit --inv=IndInv --length=1
     (3) IndInv => AnswersAsFresh /\ DirNeverAhead                  ...           --init=IndInit --inv=Safety --length=0

   TLC decides the same for NDocs = 2, 3 by visiting every state (MC_Store.cfg); this adds the parameter.
   IndInit is IndInv written as a predicate over unprimed variables that bounds every variable by a set, as Apalache
   needs it for an initial-state predicate.                                                                        *)
EXTENDS Store, Integers

ConstInit == /\ InvalidateFirst = TRUE /\ MetaBeforeCommit = FALSE
             /\ NDocs \in Nat /\ NDocs >= 1
             /\ MaxFaults = 0 /\ MaxCrashes = 0

\* controls: the protocol as pinned (no invalidation), and write_meta before the commit -- IndInv must not be inductive
ConstInitPinned == /\ InvalidateFirst = FALSE /\ MetaBeforeCommit = FALSE /\ NDocs \in Nat /\ NDocs >= 1 /\ MaxFaults = 0 /\ MaxCrashes = 0
ConstInitMetaFirst == /\ InvalidateFirst = TRUE /\ MetaBeforeCommit = TRUE /\ NDocs \in Nat /\ NDocs >= 1 /\ MaxFaults = 0 /\ MaxCrashes = 0

PCs == {"stopped", "open", "readmeta", "decide", "tryopen", "invalidate", "removedir", "removing",
        "createdir", "createindex", "opened", "writer", "adddocs", "commit", "reload",
        "truncmeta", "writemeta", "finish", "ready"}

Types == /\ meta \in MetaVals /\ idx \in IdxVals /\ pc \in PCs
         /\ mem \in BOOLEAN /\ rebuild \in BOOLEAN /\ deleted \in BOOLEAN
         /\ rmeta \in MetaVals \cup {"None"}
         /\ staged \in Int
         /\ view \in Contents \cup {"none"} /\ ram \in Contents \cup {"none"}
         /\ faults = 0 /\ crashes = 0

\* the directory: meta.json never says "current" over an index that holds anything but the shipped data
\* (an external fault may have removed the index directory: then nothing is answered from it, it is rebuilt)
DirNeverAhead == meta = "Current" => idx \in {"New", "Absent"}

Proc ==
  \* what was read is still what is there (nobody else writes while this process runs)
  /\ pc \in {"decide", "tryopen"} /\ rmeta = "Current" => meta = "Current"
  /\ pc = "tryopen" => ~mem /\ (rebuild <=> rmeta # "Current")
  \* only an on-disk session invalidates, removes, creates, writes metadata
  /\ pc \in {"invalidate", "removedir", "removing", "createdir", "createindex", "truncmeta", "writemeta"} => ~mem
  \* the index directory is only taken apart under invalidated metadata
  /\ pc \in {"removedir", "removing", "createdir", "createindex"} => meta = "Absent"
  \* behind the commit the index is the shipped data
  /\ pc \in {"reload", "truncmeta", "writemeta"} /\ ~mem => idx = "New"
  /\ pc = "reload" /\ mem => ram = "New"
  /\ pc \in {"truncmeta", "writemeta", "finish", "ready"} => view = "New"

IndInv == Types /\ DirNeverAhead /\ Proc
IndInit == IndInv
Safety == AnswersAsFresh /\ DirNeverAhead
=============================================================================
