-------------------------------- MODULE Codec --------------------------------
(* Persisted form of units (C17).  A derived unit is written as its numeric identifier and read
   back through a table from identifiers to units.  UnitTable.UId pins the identifiers of the 78
   derived units (strings: they exceed 2^31).  For the persisted form to be stable across builds the
   writer's table must be exactly UId, and UId must be injective (model-checked: MC_Codec).      *)
EXTENDS UnitTable, FiniteSets, TLC
Injective == \A a, b \in UDerivedKeys : UId(a) = UId(b) => a = b
Total == \A a \in UDerivedKeys : UId(a) # ""
\* reading table induced by the pinned identifiers
UnitOfId(id) == CHOOSE k \in UDerivedKeys : UId(k) = id
MutuallyInverse == \A k \in UDerivedKeys : UnitOfId(UId(k)) = k
=============================================================================
