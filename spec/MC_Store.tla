----------------------------- MODULE MC_Store -----------------------------
(* Model-checking wrapper of Store.tla.  Adds (i) the bound on starts, (ii) a history of
   the externally controllable choices -- initial directory, fault, session kind, kill
   point named by the last hook event the process emitted -- with the directory state the
   specification expects after each of them.  Each maximal history is printed as one JSON
   line and replayed against real directories by `conform c15-replay`.                   *)
EXTENDS Store, Json
CONSTANTS MaxStarts, Emit

VARIABLES lastev,   \* hook event that reported the last step of the running process
          lastn,    \* occurrence count of that event (add_document:k)
          starts, hist
mcvars == <<lastev, lastn, starts, hist>>

Item(k, what) == [k |-> k, what |-> what, n |-> lastn, meta |-> meta', idx |-> idx',
                  view |-> view]

MCInit == Init /\ lastev = "" /\ lastn = 0 /\ starts = 0
          /\ hist = <<[k |-> "init", what |-> "", n |-> 0, meta |-> meta, idx |-> idx, view |-> "none"]>>

Ev(A, name) == A /\ lastev' = name /\ lastn' = 1 /\ UNCHANGED <<starts, hist>>
Quiet(A)    == A /\ UNCHANGED mcvars

MCFault == /\ Fault
           /\ hist' = Append(hist, Item("fault", IF meta' # meta THEN "meta_" \o meta' ELSE "idx_" \o idx'))
           /\ UNCHANGED <<lastev, lastn, starts>>
MCStart(m) == /\ starts < MaxStarts /\ Start(m) /\ starts' = starts + 1
              /\ lastev' = (IF m THEN "open_memory" ELSE "open_disk") /\ lastn' = 1
              /\ UNCHANGED hist
MCAddDoc == AddDoc /\ lastev' = "add_document" /\ lastn' = staged' /\ UNCHANGED <<starts, hist>>
MCExit == /\ Exit
          /\ hist' = Append(hist, Item(IF mem THEN "run_memory" ELSE "run_disk", "ready"))
          /\ UNCHANGED <<lastev, lastn, starts>>
MCCrash == /\ Crash
           /\ hist' = Append(hist, Item(IF mem THEN "run_memory" ELSE "run_disk", lastev))
           /\ UNCHANGED <<lastev, lastn, starts>>

MCNext == \/ MCFault \/ (\E m \in BOOLEAN : MCStart(m)) \/ MCExit \/ MCCrash \/ MCAddDoc
          \/ Ev(ReadMeta, "read_meta") \/ Quiet(Decide) \/ Ev(TryOpenOk, "opened_index")
          \/ Quiet(TryOpenFail) \/ Ev(Invalidate, "meta_invalidated")
          \/ Ev(RemoveDirBegin, "before_remove_index") \/ Ev(RemoveDirPartial, "partial_remove") \/ Ev(RemoveDirEnd, "after_remove_index")
          \/ Ev(RemoveDirSkip, "after_remove_index") \/ Ev(CreateDir, "after_create_dir")
          \/ Ev(CreateIndex, "after_create_index") \/ Ev(DeleteAll, "delete_all")
          \/ Ev(AllAdded, "before_commit") \/ Ev(Commit, "after_commit") \/ Ev(Reload, "after_reload")
          \/ Ev(TruncMeta, "meta_truncated") \/ Ev(WriteMeta, "after_write_meta") \/ Ev(Finish, "ready")

MCSpec == MCInit /\ [][MCNext]_<<vars, mcvars>>

\* a history is maximal when no further start is allowed and no process is running
Maximal == pc = "stopped" /\ starts = MaxStarts
EmitInv == (Emit /\ Maximal) => PrintT(<<"VEC", ToJson([hist |-> hist])>>)
=============================================================================
