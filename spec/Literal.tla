------------------------------ MODULE Literal ------------------------------
(* Decimal literals (C07).

   Declarative layer:  Shape / WellFormed / Denote -- what a literal *means*: an optional
   sign, integer digits, an optional point with fraction digits, an optional exponent; its
   value is  +-(integer digits ++ fraction digits) * 10^(exponent - #fraction digits),
   kept as a canonical (sign, digit sequence, power of ten) triple: no arithmetic at all,
   so literals of any length are handled exactly.

   Operational layer:  FromStr -- `impl FromStr for Rational` (src/rational/mod.rs:330-419)
   byte by byte with its flags (neg, init, dot, dots, exponent loop); the accumulator
   `out` is kept as a digit sequence.  MC_Literal.tla checks FromStr = Denote on every
   well-formed literal up to a length; the harness replays the same literals into the code. *)
EXTENDS Integers, Sequences, TLC

LDigit == {"0", "1", "2", "3", "4", "5", "6", "7", "8", "9"}
DVal(c) == CASE c = "0" -> 0 [] c = "1" -> 1 [] c = "2" -> 2 [] c = "3" -> 3 [] c = "4" -> 4
             [] c = "5" -> 5 [] c = "6" -> 6 [] c = "7" -> 7 [] c = "8" -> 8 [] c = "9" -> 9

\* ---------------- declarative: shape and denotation ----------------
RECURSIVE SpanOf(_, _, _)
SpanOf(s, i, S) == IF i <= Len(s) /\ s[i] \in S THEN SpanOf(s, i + 1, S) ELSE i
Shape(s) ==
  LET a == IF Len(s) >= 1 /\ s[1] \in {"+", "-"} THEN 2 ELSE 1      \* start of integer digits
      b == SpanOf(s, a, LDigit)                                      \* end of integer digits
      hasP == b <= Len(s) /\ s[b] = "."
      c == IF hasP THEN b + 1 ELSE b                                 \* start of fraction digits
      d == SpanOf(s, c, LDigit)                                      \* end of fraction digits
      hasE == d <= Len(s) /\ s[d] \in {"e", "E"}
      e1 == IF hasE THEN d + 1 ELSE d
      e2 == IF hasE /\ e1 <= Len(s) /\ s[e1] \in {"+", "-"} THEN e1 + 1 ELSE e1
      f == SpanOf(s, e2, LDigit)
  IN [neg |-> Len(s) >= 1 /\ s[1] = "-", ip |-> SubSeq(s, a, b - 1), fp |-> SubSeq(s, c, d - 1),
      hasE |-> hasE, eneg |-> hasE /\ e1 <= Len(s) /\ s[e1] = "-", ed |-> SubSeq(s, e2, f - 1), end |-> f]
\* the literals C07 speaks about
WellFormed(s) == LET h == Shape(s) IN
  /\ h.end = Len(s) + 1
  /\ Len(h.ip) + Len(h.fp) >= 1
  /\ h.hasE => Len(h.ed) >= 1
\* a viable prefix can still be extended to a well-formed literal
Viable(s) == Shape(s).end = Len(s) + 1
RECURSIVE ToNum(_, _, _)
ToNum(ds, i, acc) == IF i > Len(ds) THEN acc ELSE ToNum(ds, i + 1, acc * 10 + DVal(ds[i]))
DigitVals(ds) == TLCEval([i \in 1..Len(ds) |-> DVal(ds[i])])
RECURSIVE StripL(_), StripR(_)
StripL(ds) == IF Len(ds) >= 1 /\ ds[1] = 0 THEN StripL(Tail(ds)) ELSE ds
StripR(v) == IF Len(v.ds) >= 1 /\ v.ds[Len(v.ds)] = 0
             THEN StripR([v EXCEPT !.ds = SubSeq(v.ds, 1, Len(v.ds) - 1), !.e = v.e + 1]) ELSE v
\* canonical exact value: sign, digits without leading or trailing zeros, power of ten; zero is <<>>
Canon(neg, ds, e) == LET v == StripR([ds |-> StripL(ds), e |-> e]) IN
                     IF v.ds = <<>> THEN [neg |-> FALSE, ds |-> <<>>, e |-> 0] ELSE [neg |-> neg, ds |-> v.ds, e |-> v.e]
ExpOf(h) == IF h.hasE THEN (IF h.eneg THEN 0 - ToNum(h.ed, 1, 0) ELSE ToNum(h.ed, 1, 0)) ELSE 0
Denote(s) == LET h == Shape(s) IN Canon(h.neg, DigitVals(h.ip \o h.fp), ExpOf(h) - Len(h.fp))

\* ---------------- operational: impl FromStr for Rational, byte by byte ----------------
RECURSIVE ExpLoop(_, _, _, _), FSLoop(_, _, _, _, _, _)
ExpLoop(s, i, init, exp) ==     \* the inner `for b in it` of the exponent; returns [ok, exp]
  IF i > Len(s) THEN [ok |-> TRUE, exp |-> exp]
  ELSE IF s[i] = "0" /\ ~init THEN ExpLoop(s, i + 1, init, exp)
  ELSE IF s[i] \in LDigit THEN ExpLoop(s, i + 1, TRUE, exp * 10 + DVal(s[i]))
  ELSE [ok |-> FALSE, exp |-> 0]
FSLoop(s, i, init, dot, dots, out) ==    \* out: digit sequence standing for the big integer
  IF i > Len(s) THEN [ok |-> TRUE, out |-> out, sh |-> 0 - dots]
  ELSE LET b == s[i] IN
    IF b = "0" /\ ~init THEN FSLoop(s, i + 1, init, dot, dots, out)
    ELSE IF b \in LDigit THEN FSLoop(s, i + 1, TRUE, dot, IF dot THEN dots + 1 ELSE dots, Append(out, DVal(b)))
    ELSE IF b = "." /\ ~dot THEN FSLoop(s, i + 1, TRUE, TRUE, dots, out)
    ELSE IF b \in {"e", "E"} THEN
         LET hasSign == i + 1 <= Len(s) /\ s[i + 1] \in {"+", "-"}
             eneg == hasSign /\ s[i + 1] = "-"
             r == ExpLoop(s, IF hasSign THEN i + 2 ELSE i + 1, FALSE, 0) IN
         IF r.ok THEN [ok |-> TRUE, out |-> out, sh |-> (IF eneg THEN 0 - r.exp ELSE r.exp) - dots]
         ELSE [ok |-> FALSE, out |-> <<>>, sh |-> 0]
    ELSE [ok |-> FALSE, out |-> <<>>, sh |-> 0]
FromStr(s) ==
  LET hasSign == Len(s) >= 1 /\ s[1] \in {"+", "-"}
      neg == hasSign /\ s[1] = "-"
      r == FSLoop(s, IF hasSign THEN 2 ELSE 1, FALSE, FALSE, 0, <<>>) IN
  IF r.ok THEN [ok |-> TRUE, v |-> Canon(neg, r.out, r.sh)] ELSE [ok |-> FALSE, v |-> Canon(FALSE, <<>>, 0)]
=============================================================================
