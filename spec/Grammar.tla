------------------------------ MODULE Grammar ------------------------------
(* The query language as a declarative grammar over the token list of Lexer.tla (blanks
   included, because they delimit unit expressions).  This is the reference the hand-written
   parser (Parser.tla, transcribed from src/syntax/grammar.rs) is checked against, and the
   front end of the reference evaluator (Eval.tla).

     queries := {expr}
     expr    := operand {op operand}           precedence  to(1) < + -(2) < * /(3) < ^ **(10),
                                               all left associative; the operand after `to`
                                               is a unit expression
     operand := NUMBER '%'                     percentage
              | NUMBER unit?                   number, or quantity
              | '(' expr ')'
              | WORD '(' [expr {',' expr} [',']] ')'       function call (no blank before '(')
              | WORD {WORD | NUMBER}           phrase looked up in the database
     unit    := lead {trail} {BLANK lead {trail}}       lead  := NUMBER | WORD
                                                      trail := WORD | TO | NUMBER | * | / | ^ | **
                (a unit ends at the first blank not followed by a lead, or at any other token)
   Blanks are optional and may be repeated between any two tokens of expr / operand;
   inside `unit` they separate factors.

   Meanings are terms of a free algebra (no arithmetic here):
     [t |-> "num", i]  [t |-> "pct", i]  [t |-> "qty", i, u |-> <<from, to>>]
     [t |-> "bin", op, l, r]  [t |-> "cast", l, u |-> <<from, to>>]
     [t |-> "call", i, args]  [t |-> "phrase", u |-> <<from, to>>]
   where i, from, to are token indexes (to exclusive).                                    *)
EXTENDS Naturals, Sequences, FiniteSets, TLC

BadAst == [t |-> "bad"]
KAt(toks, i) == IF i >= 1 /\ i <= Len(toks) THEN toks[i].k ELSE "EOF"
RECURSIVE SkipWS(_, _)
SkipWS(toks, i) == IF KAt(toks, i) = "WHITESPACE" THEN SkipWS(toks, i + 1) ELSE i

Prio(k) == CASE k = "TO" -> 1
             [] k \in {"PLUS", "DASH"} -> 2
             [] k \in {"STAR", "SLASH"} -> 3
             [] k \in {"CARET", "STARSTAR"} -> 10
             [] OTHER -> 0
OpName(k) == CASE k = "PLUS" -> "+" [] k = "DASH" -> "-" [] k = "STAR" -> "*" [] k = "SLASH" -> "/"
               [] k \in {"CARET", "STARSTAR"} -> "^" [] k = "TO" -> "to" [] OTHER -> "?"

Lead == {"NUMBER", "WORD"}
Trail == {"WORD", "TO", "NUMBER", "STAR", "SLASH", "CARET", "STARSTAR"}
\* end (exclusive) of the unit expression whose lead is at token i
RECURSIVE TrailEnd(_, _), UnitEnd(_, _)
TrailEnd(toks, i) == IF KAt(toks, i) \in Trail THEN TrailEnd(toks, i + 1) ELSE i
UnitEnd(toks, i) ==       \* i is a lead
  LET e == TrailEnd(toks, i + 1) IN
  IF KAt(toks, e) = "WHITESPACE" /\ KAt(toks, e + 1) \in Lead THEN UnitEnd(toks, e + 1) ELSE e

\* parse results: [ok, ast, next]
GOk(ast, n) == [ok |-> TRUE, ast |-> ast, next |-> n]
GBad(n) == [ok |-> FALSE, ast |-> BadAst, next |-> n]

RECURSIVE GExpr(_, _, _), GPrim(_, _), GClimb(_, _, _, _), GArgs(_, _, _), GPhraseEnd(_, _)
GPhraseEnd(toks, i) ==      \* i: just behind a word of the phrase
  LET j == SkipWS(toks, i) IN
  IF KAt(toks, j) \in {"WORD", "NUMBER"} THEN GPhraseEnd(toks, j + 1) ELSE i
GArgs(toks, i, acc) ==      \* i: behind '(' or ','
  LET j == SkipWS(toks, i) IN
  IF KAt(toks, j) = "CLOSE_PAREN" THEN [ok |-> TRUE, args |-> acc, next |-> j + 1]
  ELSE LET e == GExpr(toks, j, 1) IN
       IF ~e.ok THEN [ok |-> FALSE, args |-> acc, next |-> e.next]
       ELSE LET k == SkipWS(toks, e.next) IN
            IF KAt(toks, k) = "COMMA" THEN GArgs(toks, k + 1, Append(acc, e.ast))
            ELSE IF KAt(toks, k) = "CLOSE_PAREN" THEN [ok |-> TRUE, args |-> Append(acc, e.ast), next |-> k + 1]
            ELSE [ok |-> FALSE, args |-> acc, next |-> k]
GPrim(toks, i0) ==
  LET i == SkipWS(toks, i0)
      k == KAt(toks, i) IN
  IF k = "NUMBER" THEN
       LET j == SkipWS(toks, i + 1) IN
       IF KAt(toks, j) = "PERCENTAGE" THEN GOk([t |-> "pct", i |-> i], j + 1)
       ELSE IF KAt(toks, j) \in Lead
            THEN LET e == UnitEnd(toks, j) IN GOk([t |-> "qty", i |-> i, u |-> <<j, e>>], e)
            ELSE GOk([t |-> "num", i |-> i], i + 1)
  ELSE IF k = "OPEN_PAREN" THEN
       LET e == GExpr(toks, i + 1, 1) IN
       IF ~e.ok THEN e
       ELSE LET j == SkipWS(toks, e.next) IN
            IF KAt(toks, j) = "CLOSE_PAREN" THEN GOk(e.ast, j + 1) ELSE GBad(j)
  ELSE IF k = "WORD" THEN
       IF KAt(toks, i + 1) = "OPEN_PAREN"
       THEN LET a == GArgs(toks, i + 2, <<>>) IN
            IF a.ok THEN GOk([t |-> "call", i |-> i, args |-> a.args], a.next) ELSE GBad(a.next)
       ELSE LET e == GPhraseEnd(toks, i + 1) IN GOk([t |-> "phrase", u |-> <<i, e>>], e)
  ELSE GBad(i)
GClimb(toks, lhs, i0, minp) ==
  LET i == SkipWS(toks, i0)
      k == KAt(toks, i)
      p == Prio(k) IN
  IF ~lhs.ok \/ p = 0 \/ p < minp THEN [lhs EXCEPT !.next = IF lhs.ok THEN i0 ELSE lhs.next]
  ELSE IF k = "TO" THEN
       LET j == SkipWS(toks, i + 1) IN
       IF KAt(toks, j) \notin Lead THEN GBad(j)
       ELSE LET e == UnitEnd(toks, j)
                n == SkipWS(toks, e) IN
            \* an operator that binds tighter than `to` cannot continue a unit
            IF Prio(KAt(toks, n)) > 1 THEN GBad(n)
            ELSE GClimb(toks, GOk([t |-> "cast", l |-> lhs.ast, u |-> <<j, e>>], e), e, minp)
  ELSE LET rhs == GExpr(toks, i + 1, p + 1) IN
       IF ~rhs.ok THEN rhs
       ELSE GClimb(toks, GOk([t |-> "bin", op |-> OpName(k), l |-> lhs.ast, r |-> rhs.ast], rhs.next), rhs.next, minp)
GExpr(toks, i, minp) == LET p == GPrim(toks, i) IN GClimb(toks, p, p.next, minp)

\* the whole query: zero or more expressions, blanks around them
RECURSIVE GQueries(_, _, _)
GQueries(toks, i, acc) ==
  LET j == SkipWS(toks, i) IN
  IF j > Len(toks) THEN [ok |-> TRUE, asts |-> acc]
  ELSE LET e == GExpr(toks, j, 1) IN
       IF e.ok THEN GQueries(toks, e.next, Append(acc, e.ast)) ELSE [ok |-> FALSE, asts |-> acc]
Grammar(toks) == GQueries(toks, 1, <<>>)
\* the tokens form exactly one expression
One(toks) == LET g == Grammar(toks) IN IF g.ok /\ Len(g.asts) = 1 THEN g.asts[1] ELSE BadAst
=============================================================================
