------------------------------- MODULE MC_Temp -------------------------------
(* Temperature scales (C09) in the reference evaluator (Eval.tla with Temperature = TRUE).

   Every magnitude x = a / b of a grid, every chain of at most MaxChain conversions among
   kelvin, degree Celsius, degree Fahrenheit (and milli-degree Celsius, to exercise prefixes):
     Formulas    a single conversion follows  K = C + 273.15  and  C = (F - 32) * 5/9  -- written
                 out here independently of the unit table's (factor, offset) encoding
     Composes    the chain ends where the direct conversion from its first to its last scale does
     Inverts     converting there and back returns x
     Misplaced   a scale that does not stand alone with power one (squared, inverted, multiplied
                 with a length) converts as an interval or is refused (opt), never with the zero point
   Values live in F_p for four primes (ModArith); x small, so agreement is exact in practice.  *)
EXTENDS Eval
CONSTANTS MaxA, Dens, MaxChain
U(k, px) == TLCEval([x \in {k} |-> [pw |-> 1, px |-> px]])
Scales == <<U("Kelvin", 0), U("CELSIUS", 0), U("FAHRENHEIT", 0), U("CELSIUS", -3)>>
NScales == Len(Scales)
Q(x, u) == Quantity(x, Unknown, u).v
\* the number displayed in unit u
Shown(v) == RDiv(v.si, Scale(v.u))
\* the defining formulas, on residues: kelvin of a number x on scale i, and back
C27315 == RRat(27315, 100)
ToK(x, i) == CASE i = 1 -> x
               [] i = 2 -> RAdd(x, C27315)
               [] i = 3 -> RAdd(RMul(RSub(x, RInt(32)), RRat(5, 9)), C27315)
               [] i = 4 -> RAdd(RDiv(x, RInt(1000)), C27315)
FromK(k, i) == CASE i = 1 -> k
                 [] i = 2 -> RSub(k, C27315)
                 [] i = 3 -> RAdd(RMul(RSub(k, C27315), RRat(9, 5)), RInt(32))
                 [] i = 4 -> RMul(RSub(k, C27315), RInt(1000))
RECURSIVE RunChain(_, _, _)
RunChain(v, chain, j) == IF j > Len(chain) THEN v ELSE RunChain(Cast(v, Scales[chain[j]]).v, chain, j + 1)

VARIABLES a, b, chain
Init == a \in (0 - MaxA)..MaxA /\ b \in Dens /\ chain = <<>>
Next == /\ Len(chain) < MaxChain + 1
        /\ \E i \in 1..NScales : chain' = Append(chain, i)
        /\ UNCHANGED <<a, b>>
Spec == Init /\ [][Next]_<<a, b, chain>>
X == RRat(a, b)
Ready == Len(chain) >= 2
Formulas == Len(chain) = 2 =>
              LET r == Cast(Q(X, Scales[chain[1]]), Scales[chain[2]]) IN
              r.k = "val" /\ ~r.v.opt /\ REq(Shown(r.v), FromK(ToK(X, chain[1]), chain[2]))
Composes == Ready => LET end == RunChain(Q(X, Scales[chain[1]]), chain, 2)
                         direct == Cast(Q(X, Scales[chain[1]]), Scales[chain[Len(chain)]]).v IN
                     REq(end.si, direct.si) /\ end.u = direct.u
Inverts == Len(chain) = 2 => LET there == Cast(Q(X, Scales[chain[1]]), Scales[chain[2]]).v
                                 back == Cast(there, Scales[chain[1]]).v IN
                             REq(Shown(back), X)
\* an offset scale squared, inverted, or next to a metre: interval semantics (or refusal), never the zero point
Pw(k, p) == TLCEval([x \in {k} |-> [pw |-> p, px |-> 0]])
With(k, p) == TLCEval([x \in {k, "Meter"} |-> [pw |-> IF x = "Meter" THEN 1 ELSE p, px |-> 0]])
Misplaced == Len(chain) = 2 /\ chain[1] \in {2, 3} /\ chain[2] = 1 =>
   \A p \in {-3, -2, -1, 2, 3} :
     LET k == IF chain[1] = 2 THEN "CELSIUS" ELSE "FAHRENHEIT"
         f == IF chain[1] = 2 THEN RInt(1) ELSE RRat(5, 9)
         r1 == Cast(Q(X, Pw(k, p)), Pw("Kelvin", p))
         r2 == Cast(Q(X, With(k, 1)), With("Kelvin", 1)) IN
     /\ r1.k = "val" /\ r1.v.opt /\ REq(Shown(r1.v), RMul(X, RPow(f, p)))
     /\ r2.k = "val" /\ r2.v.opt /\ REq(Shown(r2.v), RMul(X, f))
=============================================================================
