SPECIFICATION TSpec
CONSTANTS
  InvalidateFirst = TRUE
  MetaBeforeCommit = FALSE
  NDocs <- TraceNDocs
  MaxFaults = 0
  MaxCrashes = 0
CONSTRAINT Progress
POSTCONDITION Report
CHECK_DEADLOCK FALSE
