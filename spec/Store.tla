------------------------------- MODULE Store -------------------------------
(* The persistent part of `any`: the data directory (meta.json + index/) and one process
   opening it (db.rs::open_inner / open_index, config.rs::open / write_meta).

   One action per step between two hook points of the code (`crate::verif::store_step`),
   so that recorded executions can be validated against this module (Trace_Store.tla) and
   TLC-generated crash schedules can be replayed against real directories (MC_Store.tla).

   Directory state survives a crash, process state does not.

   Property C15:  AnswersAsFresh, MetaNeverAhead, and liveness EventuallyReady.            *)
EXTENDS Naturals, Sequences, FiniteSets, TLC

CONSTANTS
  \* @type: Bool;
  InvalidateFirst,  \* TRUE = the repaired protocol: meta.json is dropped before the index
                    \*        directory is removed / recreated.  FALSE = protocol as pinned.
  \* @type: Bool;
  MetaBeforeCommit, \* FALSE; TRUE models the mutant "write_meta before commit" (selftest)
  \* @type: Int;
  NDocs,            \* number of shipped documents in the model (abstract; 2 is enough to
                    \* distinguish none / some / all staged)
  \* @type: Int;
  MaxFaults,
  \* @type: Int;
  MaxCrashes        \* bounds on external faults / kills per behaviour (0 = unbounded)
\* (the type annotations in comments are for Apalache, StoreInd.tla; TLC ignores them)

\* what a *committed* index answers with
\*   "New"   = exactly the shipped data            "Old" = some other data set
\*   "Empty" = created, nothing ever committed
Contents == {"New", "Old", "Empty"}
\* what meta.json says (compared with this build's version and data hash)
\*   "NoHash" = well-formed, this build's version, but no data hash recorded (a field lost or null)
MetaVals == {"Absent", "Garbage", "NoHash", "OtherVersion", "OtherHash", "Current"}
\*   "Absent"  no index directory      "NoIndex" directory exists, tantivy cannot open it
IdxVals  == {"Absent", "NoIndex"} \cup Contents

VARIABLES
  \* @type: Str;
  meta,
  \* @type: Str;
  idx,                       \* the data directory
  \* @type: Str;
  pc,                        \* program counter of the single process ("stopped" = not running)
  \* @type: Bool;
  mem,                       \* TRUE = Db::in_memory session (reads meta, never writes the directory)
  \* @type: Str;
  rmeta,                     \* what config::open read
  \* @type: Bool;
  rebuild,                   \* the `rebuild` flag of open_inner
  \* @type: Int;
  staged,                    \* documents added to the writer, not yet committed (0..NDocs), NDocs + 1 = no writer
  \* @type: Bool;
  deleted,                   \* delete_all_documents staged
  \* @type: Str;
  view,                      \* what this process' searcher sees ("none" before a reader exists)
  \* @type: Str;
  ram,                       \* contents of the in-memory index of an in-memory session
  \* @type: Int;
  faults,
  \* @type: Int;
  crashes
\* @type: <<Str, Str>>;
dirvars  == <<meta, idx>>
procvars == <<pc, mem, rmeta, rebuild, staged, deleted, view, ram>>
vars == <<meta, idx, pc, mem, rmeta, rebuild, staged, deleted, view, ram, faults, crashes>>

\* directory states a crash-free history of this and other versions of the tool leaves behind
\* @type: Set(<<Str, Str>>);
Consistent == { <<"Absent", "Absent">>,        \* first start ever
                <<"OtherVersion", "Old">>,     \* written by another version
                <<"OtherHash", "Old">>,        \* written for other data
                <<"Current", "New">> }         \* written by this build

TypeOK == /\ meta \in MetaVals /\ idx \in IdxVals
          /\ pc \in {"stopped", "open", "readmeta", "decide", "tryopen", "invalidate", "removedir", "removing",
                     "createdir", "createindex", "opened", "writer", "adddocs", "commit", "reload",
                     "truncmeta", "writemeta", "finish", "ready"}
          /\ mem \in BOOLEAN /\ rebuild \in BOOLEAN /\ deleted \in BOOLEAN
          /\ staged \in (0..NDocs) \cup {NDocs + 1}
          /\ view \in Contents \cup {"none"}
          /\ ram \in Contents \cup {"none"}

NoProc == /\ pc = "stopped" /\ mem = FALSE /\ rmeta = "None" /\ rebuild = FALSE
          /\ staged = NDocs + 1 /\ deleted = FALSE /\ view = "none" /\ ram = "none"

Init == /\ \E c \in Consistent : meta = c[1] /\ idx = c[2]
        /\ NoProc
        /\ faults = 0 /\ crashes = 0

\* ---------------------------------------------------------------------------------------
\* external damage while the tool is not running (C15: "metadata missing, truncated or
\* garbage, index directory missing")
Fault == /\ pc = "stopped"
         /\ MaxFaults = 0 \/ faults < MaxFaults
         /\ faults' = IF MaxFaults = 0 THEN 0 ELSE faults + 1
         /\ \/ meta' \in {"Absent", "Garbage", "NoHash"} /\ meta' # meta /\ idx' = idx
            \/ idx' = "Absent" /\ idx # "Absent" /\ meta' = meta
         /\ UNCHANGED <<pc, mem, rmeta, rebuild, staged, deleted, view, ram, crashes>>

\* ---------------------------------------------------------------------------------------
\* one process.  hook names in comments.
Start(m) == /\ pc = "stopped" /\ pc' = "readmeta" /\ mem' = m              \* open_memory / open_disk
            /\ UNCHANGED <<meta, idx, rmeta, rebuild, staged, deleted, view, ram, faults, crashes>>

ReadMeta == /\ pc = "readmeta"                                            \* read_meta
            /\ rmeta' = IF meta \in {"Absent", "Garbage"} THEN "None" ELSE meta
            /\ pc' = "decide"
            /\ UNCHANGED <<meta, idx, mem, rebuild, staged, deleted, view, ram, faults, crashes>>

\* rebuild = stored hash differs (or none, or in-memory); open_index: other/no version forces a new directory
Decide == /\ pc = "decide"
          /\ rebuild' = (mem \/ rmeta # "Current")
          /\ pc' = IF mem THEN "writer"
                   ELSE IF rmeta \in {"None", "OtherVersion"}
                        THEN (IF InvalidateFirst THEN "invalidate" ELSE "removedir")
                        ELSE "tryopen"
          /\ ram' = IF mem THEN "Empty" ELSE ram
          /\ view' = IF mem THEN "Empty" ELSE view
          /\ UNCHANGED <<meta, idx, mem, rmeta, staged, deleted, faults, crashes>>

TryOpenOk == /\ pc = "tryopen" /\ idx \in Contents                        \* opened_index
             /\ view' = idx
             /\ pc' = IF rebuild THEN "writer" ELSE "finish"
             /\ UNCHANGED <<meta, idx, mem, rmeta, rebuild, staged, deleted, ram, faults, crashes>>

TryOpenFail == /\ pc = "tryopen" /\ idx \notin Contents
               /\ pc' = IF InvalidateFirst THEN "invalidate" ELSE "removedir"
               /\ UNCHANGED <<meta, idx, mem, rmeta, rebuild, staged, deleted, view, ram, faults, crashes>>

Invalidate == /\ pc = "invalidate"                                        \* meta_invalidated
              /\ meta' = "Absent" /\ pc' = "removedir"
              /\ UNCHANGED <<idx, mem, rmeta, rebuild, staged, deleted, view, ram, faults, crashes>>

\* remove_dir_all is not atomic: the hook fires before it starts (directory still intact);
\* a kill in the middle leaves a directory tantivy cannot open (RemoveDirPartial, not reported
\* by any hook -- the harness realises it by deleting part of the directory after a kill)
RemoveDirBegin == /\ pc = "removedir" /\ idx # "Absent"                   \* before_remove_index
                  /\ pc' = "removing"
                  /\ UNCHANGED <<meta, idx, mem, rmeta, rebuild, staged, deleted, view, ram, faults, crashes>>
RemoveDirPartial == /\ pc = "removing" /\ idx # "NoIndex"
                    /\ idx' = "NoIndex"
                    /\ UNCHANGED <<meta, pc, mem, rmeta, rebuild, staged, deleted, view, ram, faults, crashes>>
RemoveDirEnd == /\ pc = "removing"                                        \* after_remove_index
                /\ idx' = "Absent" /\ pc' = "createdir"
                /\ UNCHANGED <<meta, mem, rmeta, rebuild, staged, deleted, view, ram, faults, crashes>>
RemoveDirSkip == /\ pc = "removedir" /\ idx = "Absent"                    \* after_remove_index
                 /\ pc' = "createdir"
                 /\ UNCHANGED <<meta, idx, mem, rmeta, rebuild, staged, deleted, view, ram, faults, crashes>>

CreateDir == /\ pc = "createdir"                                          \* after_create_dir
             /\ idx' = "NoIndex" /\ pc' = "createindex"
             /\ UNCHANGED <<meta, mem, rmeta, rebuild, staged, deleted, view, ram, faults, crashes>>

CreateIndex == /\ pc = "createindex"                                      \* after_create_index
               /\ idx' = "Empty" /\ rebuild' = TRUE /\ view' = "Empty" /\ pc' = "writer"
               /\ UNCHANGED <<meta, mem, rmeta, staged, deleted, ram, faults, crashes>>

DeleteAll == /\ pc = "writer"                                             \* delete_all
             /\ rebuild
             /\ deleted' = TRUE /\ staged' = 0
             /\ pc' = "adddocs"
             /\ UNCHANGED <<meta, idx, mem, rmeta, rebuild, view, ram, faults, crashes>>

AddDoc == /\ pc = "adddocs" /\ staged < NDocs                             \* add_document
          /\ staged' = staged + 1
          /\ UNCHANGED <<meta, idx, pc, mem, rmeta, rebuild, deleted, view, ram, faults, crashes>>

AllAdded == /\ pc = "adddocs" /\ staged = NDocs                           \* before_commit
            /\ pc' = IF MetaBeforeCommit /\ ~mem THEN "truncmeta" ELSE "commit"
            /\ UNCHANGED <<meta, idx, mem, rmeta, rebuild, staged, deleted, view, ram, faults, crashes>>

\* tantivy's commit is atomic: the deletion and all staged documents become the index contents
Commit == /\ pc = "commit"                                                \* after_commit
          /\ IF mem THEN ram' = "New" /\ idx' = idx ELSE idx' = "New" /\ ram' = ram
          /\ staged' = NDocs + 1 /\ deleted' = FALSE
          /\ pc' = "reload"
          /\ UNCHANGED <<meta, mem, rmeta, rebuild, view, faults, crashes>>

Reload == /\ pc = "reload"                                                \* after_reload
          /\ view' = IF mem THEN ram ELSE idx
          /\ pc' = IF mem THEN "finish" ELSE IF MetaBeforeCommit THEN "finish" ELSE "truncmeta"
          /\ UNCHANGED <<meta, idx, mem, rmeta, rebuild, staged, deleted, ram, faults, crashes>>

\* write_meta = File::create (truncates: an empty, unparsable file) then the JSON text
TruncMeta == /\ pc = "truncmeta"                                          \* meta_truncated
             /\ meta' = "Garbage" /\ pc' = "writemeta"
             /\ UNCHANGED <<idx, mem, rmeta, rebuild, staged, deleted, view, ram, faults, crashes>>
WriteMeta == /\ pc = "writemeta"                                          \* after_write_meta
             /\ meta' = "Current"
             /\ pc' = IF MetaBeforeCommit THEN "commit" ELSE "finish"
             /\ UNCHANGED <<idx, mem, rmeta, rebuild, staged, deleted, view, ram, faults, crashes>>

Finish == /\ pc = "finish" /\ pc' = "ready"                               \* ready
          /\ UNCHANGED <<meta, idx, mem, rmeta, rebuild, staged, deleted, view, ram, faults, crashes>>

Exit == /\ pc = "ready"
        /\ pc' = "stopped" /\ mem' = FALSE /\ rmeta' = "None" /\ rebuild' = FALSE
        /\ staged' = NDocs + 1 /\ deleted' = FALSE /\ view' = "none" /\ ram' = "none"
        /\ UNCHANGED <<meta, idx, faults, crashes>>

\* the process is killed between two steps; only the directory survives
Crash == /\ pc \notin {"stopped", "ready"}
         /\ MaxCrashes = 0 \/ crashes < MaxCrashes
         /\ crashes' = IF MaxCrashes = 0 THEN 0 ELSE crashes + 1
         /\ pc' = "stopped" /\ mem' = FALSE /\ rmeta' = "None" /\ rebuild' = FALSE
         /\ staged' = NDocs + 1 /\ deleted' = FALSE /\ view' = "none" /\ ram' = "none"
         /\ UNCHANGED <<meta, idx, faults>>

Step == \/ ReadMeta \/ Decide \/ TryOpenOk \/ TryOpenFail \/ Invalidate \/ RemoveDirBegin \/ RemoveDirPartial
        \/ RemoveDirEnd \/ RemoveDirSkip \/ CreateDir \/ CreateIndex \/ DeleteAll \/ AddDoc \/ AllAdded \/ Commit
        \/ Reload \/ TruncMeta \/ WriteMeta \/ Finish
Next == Fault \/ (\E m \in BOOLEAN : Start(m)) \/ Step \/ Exit \/ Crash

Spec == Init /\ [][Next]_vars
\* a start that is not killed makes progress
FairSpec == Spec /\ WF_vars(Step)

\* ---------------------------------------------------------------------------------------
\* C15: a started tool answers exactly as a freshly built in-memory database would
AnswersAsFresh == pc = "ready" => view = "New"
\* C15: the directory never says "current" before the index is completely committed.
\* (an external fault may remove the index afterwards; that is not the tool's writing)
MetaNeverAhead == (meta = "Current" /\ faults = 0) => idx = "New"
\* stated as an action property it needs no fault counter: the tool itself only ever sets
\* meta to Current while the committed index is New
MetaWrittenAfterCommit == [][(meta' = "Current" /\ meta # "Current") => idx' = "New"]_vars
\* an in-memory session never touches the directory
MemoryIsReadOnly == [][mem => UNCHANGED dirvars]_vars
\* liveness (no crash): every start becomes ready
EventuallyReady == (pc = "readmeta") ~> (pc = "ready" \/ pc = "stopped")
=============================================================================
