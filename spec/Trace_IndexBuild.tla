------------------------- MODULE Trace_IndexBuild -------------------------
(* Implementation -> specification for C14.

   Trace events (ndjson, env TRACE), recorded by `conform c14-trace` from a history of
   sessions on the real library with the lookup hook on:
     session(id, kind)   a Db was built / opened: memory | disk_first | disk_reopen | disk_rebuild
     lookup(s, q, win, tie)   phrase number q asked in session s; `win` = shipped position of
                         the constant that was returned (-1: none), `tie` = shipped positions of all documents
                         that share the best score (from the hook's top-8 list)
   The specification side: a session's index is the result of IndexBuild with one worker
   (ShippedOrder, model-checked), so the answer is Winner(<<shipped order>>, tie) = Min(tie).
   A lookup is REJECTED when its winner differs from the one recorded for the same phrase
   earlier in the history (any session) -- that is C14.  A winner that agrees with the
   history but is not Min(tie) is counted in register 2 (a different deterministic
   tie-break would be drift, not a violation).                                          *)
EXTENDS Naturals, Sequences, FiniteSets, TLC, Json, IOUtils, TLCExt

Rec == ndJsonDeserialize(IOEnv.TRACE)
NPhrases == CHOOSE n \in 0..1000000 : ToString(n) = IOEnv.NPHRASES

VARIABLES l, answer, sessions
tvars == <<l, answer, sessions>>

SetOf(s) == {s[i] : i \in 1..Len(s)}
Min(T) == CHOOSE x \in T : \A y \in T : x <= y

TInit == l = 1 /\ answer = [q \in 1..NPhrases |-> 0] /\ sessions = {} /\ TLCSet(1, 0) /\ TLCSet(2, 0) /\ TLCSet(3, 0)

TSession == /\ l <= Len(Rec) /\ Rec[l].ev = "session"
            /\ sessions' = sessions \cup {Rec[l].id}
            /\ l' = l + 1 /\ UNCHANGED answer

TLookup == /\ l <= Len(Rec) /\ Rec[l].ev = "lookup"
           /\ Rec[l].s \in sessions
           /\ LET q == Rec[l].q
                  w == Rec[l].win
                  T == SetOf(Rec[l].tie) IN
              /\ answer[q] = 0 \/ answer[q] = w           \* agreement with the history
              /\ answer' = [answer EXCEPT ![q] = w]
              \* canonical winner (the earliest of the best-scored documents)?  drift only
              /\ IF (w \in T /\ w = Min(T)) \/ ~Rec[l].full THEN TRUE ELSE TLCSet(2, TLCGet(2) + 1)
           /\ l' = l + 1 /\ UNCHANGED sessions

\* the layout of a freshly built on-disk index, read with tantivy directly: IndexBuild.tla with one worker publishes one
\* segment in shipped order (ShippedOrder); anything else is counted in register 3 (drift: the model of the build no
\* longer describes the code -- the answers themselves are judged by TLookup)
TLayout == /\ l <= Len(Rec) /\ Rec[l].ev = "layout"
           /\ IF Rec[l].segments = 1 /\ Rec[l].flat = [i \in 1..Len(Rec[l].flat) |-> i] THEN TRUE ELSE TLCSet(3, TLCGet(3) + 1)
           /\ l' = l + 1 /\ UNCHANGED <<answer, sessions>>

TNext == TSession \/ TLookup \/ TLayout
TSpec == TInit /\ [][TNext]_tvars

Progress == TLCSet(1, IF TLCGet(1) < l THEN l ELSE TLCGet(1))
Report == PrintT(<<"REACHED", TLCGet(1), Len(Rec), TLCGet(2), TLCGet(3)>>)
=============================================================================
