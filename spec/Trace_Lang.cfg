INIT Init
NEXT Next
CONSTANTS
  ZeroPowEarlyExit = FALSE
  ZeroEntriesKept = FALSE
  Fac <- UStdFacR
INVARIANT Done
CHECK_DEADLOCK FALSE
