-------------------------------- MODULE Units --------------------------------
(* The algebra of compound units.

   A compound unit is a function  unit key -> [pw |-> power, px |-> SI prefix exponent]
   (the empty function NoUnit for a plain number), as `Compound::names` in src/compound.rs.

   Declarative layer (what the properties are stated on):
     Dims(c)   base-dimension vector:  sum of pw * UDim(u), zero entries meaning "absent"
     Scale(c)  value of one `c` in SI base units:  prod (10^px * Fac(u))^pw, in F_p
     Commensurable(a, b) == Dims(a) = Dims(b)                        (C02)
     SI(x, c) == x * Scale(c)                                        (C03, C04, C13)
   Operational layer (transcribed from powers.rs / compound.rs, BTreeMap iteration order
   made explicit through UOrder):
     PowersInsert, BasePowers, FactorOk, FactorMult, Mul with Reconstruct / BasesMatch /
     InnerMatch, Pow.
   MC_Units.tla checks the operational layer against the declarative one.

   `Fac` is a parameter: the scale source.  C05 and C09 use the standards table
   (UStdFacR); C03 / C04 / C13 use the scales the tool itself exhibits, so that a wrong
   constant is reported once, under C05, and not again under every law it takes part in.  *)
EXTENDS Integers, Sequences, FiniteSets, TLC, ModArith, UnitTable

CONSTANTS Fac(_),            \* unit key -> residue vector of its scale
          ZeroEntriesKept    \* as pinned: Powers::insert kept entries whose power became zero

NoUnit == <<>>
IsNoUnit(c) == DOMAIN c = {}
Keys(c) == SelectSeq(UOrder, LAMBDA u : u \in DOMAIN c)       \* BTreeMap iteration order
Put(f, k, v) == TLCEval([x \in (DOMAIN f) \cup {k} |-> IF x = k THEN v ELSE f[x]])
Del(f, k) == TLCEval([x \in (DOMAIN f) \ {k} |-> f[x]])
Sgn(x) == IF x > 0 THEN 1 ELSE IF x < 0 THEN -1 ELSE 0

\* ---------------------------------------------------------------- declarative layer
BaseSet == {UBases[i] : i \in 1..Len(UBases)}
Dim0 == [b \in BaseSet |-> 0]
RECURSIVE SumDims(_, _, _)
SumDims(c, ks, j) == IF j > Len(ks) THEN Dim0
                     ELSE LET d == SumDims(c, ks, j + 1)
                              ud == UDim(ks[j]) IN
                          TLCEval([b \in BaseSet |-> d[b] + c[ks[j]].pw * ud[b]])
Dims(c) == SumDims(c, Keys(c), 1)
RECURSIVE ScaleR(_, _, _)
ScaleR(c, ks, j) == IF j > Len(ks) THEN RInt(1)
                    ELSE RMul(RPow(RMul(RPow(RInt(10), c[ks[j]].px), Fac(ks[j])), c[ks[j]].pw), ScaleR(c, ks, j + 1))
Scale(c) == ScaleR(c, Keys(c), 1)
\* prefix bias: the kilogram is stored with prefix 0 and displayed "kg"; its scale is 1
HasOffset(c) == \E u \in DOMAIN c : u \in UOffsetKeys
Commensurable(a, b) == Dims(a) = Dims(b)
UPow(c, n) == IF n = 0 THEN NoUnit ELSE TLCEval([u \in DOMAIN c |-> [pw |-> c[u].pw * n, px |-> c[u].px]])
NoZero(c) == \A u \in DOMAIN c : c[u].pw # 0

\* C02: when may two quantities be added / subtracted / cast?
\*   "yes" / "no" / "ood" (an offset scale is involved: C09's subject)
Compatible(a, b) == IF IsNoUnit(a) \/ IsNoUnit(b) THEN "yes"
                    ELSE IF HasOffset(a) \/ HasOffset(b) THEN "ood"
                    ELSE IF Commensurable(a, b) THEN "yes" ELSE "no"

\* ---------------------------------------------------------------- operational layer
\* Powers (base unit key -> power)
BaseKey(b) == CASE b = "kg" -> "KiloGram" [] b = "m" -> "Meter" [] b = "s" -> "Second" [] b = "A" -> "Ampere"
                [] b = "K" -> "Kelvin" [] b = "mol" -> "Mole" [] b = "cd" -> "Candela" [] b = "B" -> "Byte"
PowersInsert(pw, u, p) ==          \* powers.rs:106-115
  IF u \in DOMAIN pw THEN (IF ~ZeroEntriesKept /\ pw[u] + p = 0 THEN Del(pw, u) ELSE Put(pw, u, pw[u] + p))
  ELSE (IF ~ZeroEntriesKept /\ p = 0 THEN pw ELSE Put(pw, u, p))
\* the `powers` closure of a derived unit inserts its non-zero base dimensions (order as written in
\* src/units; the order does not matter for the resulting map)
RECURSIVE InsertDims(_, _, _, _)
InsertDims(pw, d, j, p) == IF j > Len(UBases) THEN pw
                           ELSE InsertDims(IF d[UBases[j]] # 0 THEN PowersInsert(pw, BaseKey(UBases[j]), p * d[UBases[j]]) ELSE pw,
                                           d, j + 1, p)
UnitPowers(pw, u, p) == IF u \in UDerivedKeys THEN InsertDims(pw, UDim(u), 1, p) ELSE PowersInsert(pw, u, p)
RECURSIVE BaseUnitsR(_, _, _, _)
BaseUnitsR(c, ks, j, pw) == IF j > Len(ks) THEN pw ELSE BaseUnitsR(c, ks, j + 1, UnitPowers(pw, ks[j], c[ks[j]].pw))
BasePowers(c) == BaseUnitsR(c, Keys(c), 1, <<>>)                  \* compound.rs:349-360
Ders(c) == SelectSeq(Keys(c), LAMBDA u : u \in UDerivedKeys)

FactorOk(self, other) ==           \* compound.rs:134-155
  IF IsNoUnit(self) \/ IsNoUnit(other) THEN TRUE
  ELSE LET l == BasePowers(self)
           r == BasePowers(other) IN
       /\ Cardinality(DOMAIN l) = Cardinality(DOMAIN r)
       /\ \A n \in DOMAIN r : n \in DOMAIN l /\ l[n] = r[n]
\* what the two loops of factor() multiply `value` by (value given in `other`, wanted in `self`)
FactorMult(self, other) == IF IsNoUnit(self) \/ IsNoUnit(other) THEN RInt(1) ELSE RDiv(Scale(other), Scale(self))

\* mul(): merge base powers, rescale both values to SI, then try to re-derive named units
RECURSIVE InnerMatch(_, _, _, _)
InnerMatch(s, base, cur, dec) ==      \* compound.rs:326-345, returns [ok, cur]
  IF cur = 0 THEN [ok |-> FALSE, cur |-> cur]
  ELSE LET p == base * cur IN
       IF Sgn(p) = Sgn(s) /\ Abs(p) <= Abs(s) THEN [ok |-> TRUE, cur |-> cur]
       ELSE InnerMatch(s, base, cur - dec, dec)
RECURSIVE BasesMatch(_, _, _, _, _, _)
BasesMatch(cur, dec, pws, ks, j, names) ==      \* Option<i32> as [some, v]
  IF j > Len(ks) THEN [some |-> TRUE, v |-> cur]
  ELSE IF ks[j] \notin DOMAIN names THEN [some |-> FALSE, v |-> 0]
  ELSE LET m == InnerMatch(names[ks[j]].pw, pws[ks[j]], cur, dec) IN
       IF m.ok THEN BasesMatch(m.cur, dec, pws, ks, j + 1, names) ELSE [some |-> FALSE, v |-> 0]
RECURSIVE Shed(_, _, _, _, _)
Shed(names, pws, ks, j, mp) ==
  IF j > Len(ks) THEN names
  ELSE LET u == ks[j] IN
       IF u \in DOMAIN names
       THEN LET np == names[u].pw - pws[u] * mp IN
            Shed(IF np = 0 THEN Del(names, u) ELSE Put(names, u, [pw |-> np, px |-> names[u].px]), pws, ks, j + 1, mp)
       ELSE Shed(names, pws, ks, j + 1, mp)
RECURSIVE Reconstruct(_, _, _, _)
Reconstruct(der, j, names, val) ==      \* der: seq of [u, pw, n]; val: the left value (residues)
  IF j > Len(der) THEN [names |-> names, val |-> val]
  ELSE LET e == der[j]
           pws == UnitPowers(<<>>, e.u, 1)
           bm == BasesMatch(e.pw * e.n, Sgn(e.pw * e.n), pws, Keys(pws), 1, names) IN
       IF ~bm.some THEN Reconstruct(der, j + 1, names, val)
       ELSE LET n1 == Shed(names, pws, Keys(pws), 1, bm.v)
                n2 == IF e.u \in DOMAIN n1 THEN Put(n1, e.u, [pw |-> n1[e.u].pw + bm.v, px |-> n1[e.u].px])
                      ELSE Put(n1, e.u, [pw |-> bm.v, px |-> 0])
                v2 == RMul(val, RPow(Fac(e.u), 0 - bm.v)) IN
            Reconstruct(der, j + 1, n2, v2)
RECURSIVE MergeR(_, _, _, _, _)
MergeR(names, r, ks, j, n) ==
  IF j > Len(ks) THEN names
  ELSE LET u == ks[j] IN
       IF u \in DOMAIN names
       THEN LET np == names[u].pw + r[u] * n IN
            MergeR(IF np = 0 THEN Del(names, u) ELSE Put(names, u, [pw |-> np, px |-> 0]), r, ks, j + 1, n)
       ELSE MergeR(Put(names, u, [pw |-> r[u] * n, px |-> 0]), r, ks, j + 1, n)
\* returns the result unit and the rescaled operand values (the caller multiplies / divides them)
Mul(self, other, n, lhs, rhs) ==        \* compound.rs:177-248
  IF IsNoUnit(self) THEN [unit |-> TLCEval([u \in DOMAIN other |-> [pw |-> other[u].pw * n, px |-> other[u].px]]), lhs |-> lhs, rhs |-> rhs]
  ELSE IF IsNoUnit(other) THEN [unit |-> self, lhs |-> lhs, rhs |-> rhs]
  ELSE LET lb == BasePowers(self)
           rb == BasePowers(other)
           n0 == TLCEval([u \in DOMAIN lb |-> [pw |-> lb[u], px |-> 0]])
           n1 == MergeR(n0, rb, Keys(rb), 1, n)
           dl == Ders(self)
           dr == Ders(other)
           der == [i \in 1..Len(dl) |-> [u |-> dl[i], pw |-> self[dl[i]].pw, n |-> 1]]
                  \o [i \in 1..Len(dr) |-> [u |-> dr[i], pw |-> other[dr[i]].pw, n |-> n]]
           rc == Reconstruct(der, 1, n1, RMul(lhs, Scale(self))) IN
       [unit |-> rc.names, lhs |-> rc.val, rhs |-> RMul(rhs, Scale(other))]
=============================================================================
