----------------------------- MODULE Trace_Facts -----------------------------
(* Implementation -> specification for C16: every line is one shipped constant asked for by (a
   permutation of) its own words: the characters typed, whether exactly one constant came back,
   the search words of the constant that came back, whether it decoded completely.            *)
EXTENDS Facts, Json, IOUtils, TLCExt
Rec == ndJsonDeserialize(IOEnv.TRACE)
Check(r) == IF ~Typable(r.src) THEN [typ |-> FALSE, problems |-> <<>>]
            ELSE [typ |-> TRUE, problems |->
                    (IF ~r.found THEN <<"not-found">> ELSE <<>>)
                 \o (IF r.found /\ ~Carries(r.tokens, r.words) THEN <<"lacks-words">> ELSE <<>>)
                 \o (IF r.found /\ ~r.complete THEN <<"incomplete">> ELSE <<>>)]
VARIABLES l, ntyp
Init == l = 1 /\ ntyp = 0
Next == /\ l <= Len(Rec) /\ l' = l + 1
        /\ LET c == Check(Rec[l]) IN
           /\ ntyp' = ntyp + (IF c.typ THEN 1 ELSE 0)
           /\ (c.problems = <<>> \/ PrintT(<<"MISMATCH", ToJson([l |-> l, id |-> Rec[l].id, problems |-> c.problems])>>))
Done == l = Len(Rec) + 1 => PrintT(<<"SUMMARY", ToJson([records |-> Len(Rec), judged |-> ntyp, decided |-> ntyp])>>)
=============================================================================
