---------------------------- MODULE Trace_Display ----------------------------
(* Implementation -> specification for the decimal formatter (C08).
   Every line: a value (-1)^neg * n/d * 10^k, a display specification (limit, el) and the characters
   Rational::display printed for it (the continuation mark named ELL).  TLC requires the printed
   text to be Faithful (read back = value cut off toward zero at the last printed digit, mark iff a
   non-zero part was cut, right sign); a text that is faithful but laid out differently from what
   Display.Render produces is reported as drift only.                                         *)
EXTENDS Display, Json, IOUtils, TLCExt
Rec == ndJsonDeserialize(IOEnv.TRACE)
Check(r) == LET p1 == IF Faithful(r.neg, r.n, r.d, r.k, r.chars) THEN <<>> ELSE <<"unfaithful">>
                p2 == IF r.chars = Render(r.neg, r.n, r.d, r.k, r.limit, r.el) THEN <<>> ELSE <<"layout">> IN
            p1 \o p2
VARIABLES l
Init == l = 1
Next == /\ l <= Len(Rec) /\ l' = l + 1
        /\ LET c == Check(Rec[l]) IN
           (c = <<>> \/ PrintT(<<"MISMATCH", ToJson([l |-> l, id |-> Rec[l].id, problems |-> c])>>))
Done == l = Len(Rec) + 1 => PrintT(<<"SUMMARY", ToJson([records |-> Len(Rec), judged |-> Len(Rec), decided |-> Len(Rec)])>>)
=============================================================================
