-------------------------------- MODULE Eval --------------------------------
(* Reference evaluator: source characters -> Lexer -> Grammar -> value.

   A value is [r, q, u]:  r = residues of the exact rational in F_p (ModArith), q = the same
   number as an exact small rational when it stays small (Unknown otherwise), u = its unit
   (Units.tla; <<>> for a plain number).
   Outcome kinds:  "val"  a number          "dz"   division by zero (must be an error)
                   "err"  any other error   "ood"  outside what this module decides
                                                    (needs the database, floats, or an exact
                                                    integer the residues cannot provide)
   C01: for a well-formed numeric expression the tool's result is exactly `val`;
        `dz` is reported as an error, never as a number.
   C10: floor / ceil / round by their defining inequalities (ModArith.QFloor ...).        *)
EXTENDS Lexer, Grammar, Literal, UnitWords

CONSTANT ZeroPowEarlyExit,  \* as pinned: pow() returned the base for a zero base before looking
                            \* at the exponent's sign (0 ^ -1 = 0).  FALSE = repaired.
         Temperature        \* TRUE: quantities on offset scales (degC, degF) are decided (C09);
                            \* FALSE: they are outside what this module decides ("ood")

\* A value, SI-normalised:
\*   si   residues of the quantity expressed in SI base units  (= number * Scale(unit))
\*   dims base-dimension vector
\*   u    the unit the result is expressed in, when the language determines it ("free": the
\*        tool may display any unit of those dimensions, after * and /)
\*   q    the number *as displayed in u*, exact, when small (needed where a function is not
\*        a field operation: integer exponents, floor / ceil / round)
\*   free TRUE when u is not determined (then u = NoUnit as a placeholder)
\*   opt  TRUE when the tool may also refuse (an offset scale used as an interval, C09)
\*   lit  the canonical decimal (sign, digits, power of ten) when the number was written as a literal: lets the rounding
\*        functions be decided on numbers of any size (digit arithmetic, no big numbers); NoLit otherwise
NoLit == [neg |-> FALSE, ds |-> <<>>, e |-> 0, some |-> FALSE]
Val(si, dims, u, q) == [k |-> "val", v |-> [si |-> si, dims |-> dims, u |-> u, free |-> FALSE, q |-> q, opt |-> FALSE, lit |-> NoLit]]
FreeVal(si, dims) == [k |-> "val", v |-> [si |-> si, dims |-> dims, u |-> NoUnit, free |-> TRUE, q |-> Unknown, opt |-> FALSE, lit |-> NoLit]]
WithLit(x, d) == IF x.k = "val" THEN [x EXCEPT !.v.lit = [neg |-> d.neg, ds |-> d.ds, e |-> d.e, some |-> TRUE]] ELSE x
Opt(x) == IF x.k = "val" THEN [x EXCEPT !.v.opt = TRUE] ELSE x
Dz == [k |-> "dz"]
Err == [k |-> "err"]
Ood == [k |-> "ood"]
IsVal(x) == x.k = "val"
Plain(v) == ~v.free /\ IsNoUnit(v.u)
\* a number with a determined unit
Quantity(r, q, u) == Val(RMul(r, Scale(u)), Dims(u), u, q)

Text(s, tok) == SubSeq(s, tok.a, tok.b - 1)

\* ---- literals: the exact value the characters spell (Literal.Denote)
RECURSIVE SmallNum(_, _, _)
SmallNum(ds, i, acc) == IF i > Len(ds) THEN acc ELSE SmallNum(ds, i + 1, acc * 10 + ds[i])
Pow10Small(n) == CASE n = 0 -> 1 [] n = 1 -> 10 [] n = 2 -> 100 [] n = 3 -> 1000 [] OTHER -> 10000
LitQ(d) ==   \* exact small rational of a canonical literal, if small
  IF Len(d.ds) > 4 \/ d.e > 4 \/ d.e < -4 THEN Unknown
  ELSE LET m == SmallNum(d.ds, 1, 0)
           n == IF d.neg THEN 0 - m ELSE m
           p10 == Pow10Small(IF d.e < 0 THEN 0 - d.e ELSE d.e) IN
       IF d.e >= 0 THEN (IF m * p10 > Bound THEN Unknown ELSE <<n * p10, 1>>) ELSE Norm(n, p10)
LitR(d) == LET v == RMul(RDigits(d.ds), RPow(RInt(10), d.e)) IN IF d.neg THEN RNeg(v) ELSE v
LitVal(chars) ==
  IF ~WellFormed(chars) THEN Err
  ELSE LET d == Denote(chars) IN WithLit(Quantity(LitR(d), LitQ(d), NoUnit), d)

\* ---- zero test: exact when the small rational is known, otherwise "zero for all four primes"
\* (the harness confirms exactly before that can become an alarm)
IsZero(v) == IF Known(v.q) THEN v.q[1] = 0 ELSE RZero(v.si)

\* ---- temperature scales (C09).  A value on an offset scale is kept like any other quantity:
\* si = number * Scale(unit) with the scale's *interval* factor (1 for degC, 5/9 for degF); its absolute
\* temperature in kelvin adds the zero point of the scale.   K = C + 273.15,  C = (F - 32) * 5/9.
Off(v) == ~v.free /\ HasOffset(v.u)
AloneScale(u) == /\ Cardinality(DOMAIN u) = 1
                 /\ \A k \in DOMAIN u : u[k].pw = 1 /\ k \in ({"Kelvin"} \cup UOffsetKeys)
ZeroPoint(u) == LET k == CHOOSE k \in DOMAIN u : TRUE IN IF k \in UOffsetKeys THEN UOffsetR(k) ELSE RInt(0)
AbsK(v) == RAdd(v.si, ZeroPoint(v.u))

\* ---- builtins on exact small values; the unit of the argument is carried through
Pow10Q(n) == QPow(<<10, 1>>, n)
RoundN(x, n) ==     \* round(x * 10^n) / 10^n
  LET sc == Pow10Q(n)
      y == QMul(x, sc) IN
  IF ~Known(y) \/ ~Known(sc) THEN Unknown ELSE QDiv(<<QRound(y), 1>>, sc)
Carry(a, q) == IF Known(q) /\ ~a.free THEN Quantity(QRes(q), q, a.u) ELSE Ood
\* ---- the same functions on a literal of any size, by digit arithmetic on its canonical form (neg, ds, e):
\* value = +-ds * 10^e, ds without leading / trailing zeros (<<>> = 0)
ZeroSeq(n) == [i \in 1..n |-> 0]
IntDigitsOf(d) == IF d.e >= 0 THEN d.ds \o ZeroSeq(d.e)
                  ELSE IF Len(d.ds) + d.e > 0 THEN SubSeq(d.ds, 1, Len(d.ds) + d.e) ELSE <<>>
HasFraction(d) == d.e < 0 /\ d.ds # <<>>
FirstFracDigit(d) == IF d.e >= 0 THEN 0 ELSE IF Len(d.ds) + d.e >= 0 THEN d.ds[Len(d.ds) + d.e + 1] ELSE 0
RECURSIVE IncDigits(_, _)
IncDigits(ds, i) == IF i = 0 THEN <<1>> \o ds
                    ELSE IF ds[i] < 9 THEN [ds EXCEPT ![i] = @ + 1] ELSE IncDigits([ds EXCEPT ![i] = 0], i - 1)
Inc(ds) == IncDigits(ds, Len(ds))
\* magnitude digits and sign of floor / ceil / round(half away from zero) of the literal d
FloorLit(d) == IF d.neg /\ HasFraction(d) THEN [neg |-> TRUE, ds |-> Inc(IntDigitsOf(d))] ELSE [neg |-> d.neg, ds |-> IntDigitsOf(d)]
CeilLit(d) == IF ~d.neg /\ HasFraction(d) THEN [neg |-> FALSE, ds |-> Inc(IntDigitsOf(d))] ELSE [neg |-> d.neg, ds |-> IntDigitsOf(d)]
RoundLit(d) == [neg |-> d.neg, ds |-> IF FirstFracDigit(d) >= 5 THEN Inc(IntDigitsOf(d)) ELSE IntDigitsOf(d)]
IntResidues(x) == IF x.neg THEN RNeg(RDigits(x.ds)) ELSE RDigits(x.ds)
\* the result as a quantity in the argument's unit: integer x times 10^-n
CarryLit(a, x, n) == IF a.free THEN Ood ELSE Quantity(RMul(IntResidues(x), RPow(RInt(10), 0 - n)), Unknown, a.u)
Shift(d, n) == [d EXCEPT !.e = @ + n]
Builtin(name, args) ==
  IF name \in {"floor", "ceil"} THEN
       IF Len(args) # 1 THEN Err
       ELSE IF ~Known(args[1].q) THEN (IF args[1].lit.some THEN CarryLit(args[1], IF name = "floor" THEN FloorLit(args[1].lit) ELSE CeilLit(args[1].lit), 0) ELSE Ood)
       ELSE Carry(args[1], QInt(IF name = "floor" THEN QFloor(args[1].q) ELSE QCeil(args[1].q)))
  ELSE IF name = "round" THEN
       IF Len(args) = 0 \/ Len(args) > 2 THEN Err
       ELSE IF ~Known(args[1].q) /\ ~args[1].lit.some THEN Ood
       ELSE IF Len(args) = 1 THEN (IF Known(args[1].q) THEN Carry(args[1], QInt(QRound(args[1].q))) ELSE CarryLit(args[1], RoundLit(args[1].lit), 0))
       ELSE IF ~Known(args[2].q) \/ ~Plain(args[2]) THEN Ood
       ELSE IF ~QIsInt(args[2].q) THEN Ood      \* a fractional digit count: not specified
       ELSE IF args[2].q[1] > 6 \/ args[2].q[1] < -6 THEN Ood
       ELSE IF Known(args[1].q) /\ Known(RoundN(args[1].q, args[2].q[1])) THEN Carry(args[1], RoundN(args[1].q, args[2].q[1]))
       ELSE IF args[1].lit.some THEN CarryLit(args[1], RoundLit(Shift(args[1].lit, args[2].q[1])), args[2].q[1])
       ELSE Ood
  ELSE IF name \in {"sin", "cos"} THEN (IF Len(args) = 1 THEN Ood ELSE Err)
  ELSE Err

\* ---- operators
DimScale(d, n) == TLCEval([b \in DOMAIN d |-> d[b] * n])
DimAdd(d, e, n) == TLCEval([b \in DOMAIN d |-> d[b] + n * e[b]])
\* The tool limits the power of a unit to 2^20 in magnitude and reports an error beyond it (repair 58a1e3a: before it the
\* 32-bit powers overflowed).  Which units a product carries is left open here, so the outcome is left open as soon as a
\* base dimension exceeds a quarter of that limit -- below it no unit power can reach the limit.  The guards also keep
\* TLC's own 32-bit integers from overflowing on towers such as (((x^99)^99)^99)^99.
PowerLimit == 1048576
DimLimit == PowerLimit \div 4
AbsI(x) == IF x < 0 THEN 0 - x ELSE x
BigDims(d) == \E x \in DOMAIN d : AbsI(d[x]) > DimLimit
BigAfter(d, n) == n # 0 /\ \E x \in DOMAIN d : AbsI(d[x]) > DimLimit \div AbsI(n)
ApplyPow(b, e) ==
  IF ~Plain(e) THEN (IF e.free THEN Ood ELSE Err)
  ELSE IF ~Known(e.q) THEN Ood
  ELSE IF ~QIsInt(e.q) THEN Err
  ELSE LET n == e.q[1] IN
       IF n > 99 \/ n < -99 THEN Ood
       ELSE IF BigAfter(b.dims, n) THEN Ood
       ELSE IF Off(b) /\ ~Temperature THEN Ood
       ELSE LET d == DimScale(b.dims, n)
                M(x) == IF Off(b) THEN Opt(x) ELSE x IN       \* a power of an offset scale: refused, or an interval
            IF n = 0 THEN M(Val(RInt(1), Dim0, NoUnit, <<1, 1>>))
            ELSE IF IsZero(b) THEN (IF n < 0 /\ ~ZeroPowEarlyExit THEN Dz
                                    ELSE IF b.free THEN FreeVal(RInt(0), d) ELSE M(Val(RInt(0), d, UPow(b.u, n), <<0, 1>>)))
            ELSE IF b.free THEN FreeVal(RPow(b.si, n), d) ELSE M(Val(RPow(b.si, n), d, UPow(b.u, n), QPow(b.q, n)))

\* addition / subtraction: sgn = 1 / -1
AddSub(a, b, sgn) ==
  IF a.free \/ b.free THEN
       \* operands whose display unit the language leaves open: decided on SI values, unless a
       \* plain number would have to adopt that open unit
       IF Plain(a) \/ Plain(b) THEN Ood
       \* a dimensionless product or quotient may or may not count as a plain number: not decided here
       ELSE IF (a.free /\ a.dims = Dim0) \/ (b.free /\ b.dims = Dim0) THEN Ood
       ELSE IF a.dims # b.dims THEN Err
       ELSE IF a.free THEN FreeVal(IF sgn = 1 THEN RAdd(a.si, b.si) ELSE RSub(a.si, b.si), a.dims)
       ELSE Val(IF sgn = 1 THEN RAdd(a.si, b.si) ELSE RSub(a.si, b.si), a.dims, a.u, Unknown)
  ELSE LET c0 == Compatible(a.u, b.u)
           \* offset scales: the same unit on both sides (or a plain number) is ordinary arithmetic on the
           \* numbers; mixing scales in a sum is not specified
           c == IF c0 = "ood" /\ Temperature /\ (a.u = b.u) THEN "yes" ELSE c0 IN
       IF c = "ood" THEN Ood ELSE IF c = "no" THEN Err
       ELSE IF Plain(a) /\ Plain(b) THEN
            Quantity(IF sgn = 1 THEN RAdd(a.si, b.si) ELSE RSub(a.si, b.si), IF sgn = 1 THEN QAdd(a.q, b.q) ELSE QSub(a.q, b.q), NoUnit)
       ELSE IF Plain(a) THEN       \* the number adopts the quantity's unit
            LET x == RMul(a.si, Scale(b.u)) IN
            Val(IF sgn = 1 THEN RAdd(x, b.si) ELSE RSub(x, b.si), b.dims, b.u, IF sgn = 1 THEN QAdd(a.q, b.q) ELSE QSub(a.q, b.q))
       ELSE IF Plain(b) THEN
            LET y == RMul(b.si, Scale(a.u)) IN
            Val(IF sgn = 1 THEN RAdd(a.si, y) ELSE RSub(a.si, y), a.dims, a.u, IF sgn = 1 THEN QAdd(a.q, b.q) ELSE QSub(a.q, b.q))
       ELSE Val(IF sgn = 1 THEN RAdd(a.si, b.si) ELSE RSub(a.si, b.si), a.dims, a.u,
                IF a.u = b.u THEN (IF sgn = 1 THEN QAdd(a.q, b.q) ELSE QSub(a.q, b.q)) ELSE Unknown)

MulDiv(a, b, n) ==     \* n = 1: a * b, n = -1: a / b
  IF (Off(a) \/ Off(b)) /\ ~Temperature THEN Ood
  ELSE IF BigDims(a.dims) \/ BigDims(b.dims) \/ BigDims(DimAdd(a.dims, b.dims, n)) THEN Ood
  ELSE IF n = -1 /\ IsZero(b) THEN Dz
  ELSE LET si == IF n = 1 THEN RMul(a.si, b.si) ELSE RDiv(a.si, b.si)
           q == IF n = 1 THEN QMul(a.q, b.q) ELSE QDiv(a.q, b.q)
           d == DimAdd(a.dims, b.dims, n)
           \* an offset scale multiplied / divided: refused, or the degree counts as an interval
           M(x) == IF Off(a) \/ Off(b) THEN Opt(x) ELSE x IN
       IF Plain(b) THEN (IF a.free THEN FreeVal(si, d) ELSE M(Val(si, d, a.u, q)))
       ELSE IF Plain(a) THEN (IF b.free THEN FreeVal(si, d) ELSE M(Val(si, d, UPow(b.u, n), q)))
       ELSE M(FreeVal(si, d))

Apply0(op, a, b) ==
  CASE op = "+" -> AddSub(a, b, 1)
    [] op = "-" -> AddSub(a, b, -1)
    [] op = "*" -> MulDiv(a, b, 1)
    [] op = "/" -> MulDiv(a, b, -1)
    [] op = "^" -> ApplyPow(a, b)
\* an operand the tool was free to refuse makes the result one it is free to refuse
Apply(op, a, b) == IF a.opt \/ b.opt THEN Opt(Apply0(op, a, b)) ELSE Apply0(op, a, b)

\* a conversion in which an offset scale takes part (C09)
TempCast(a, u) ==
  IF Plain(a) THEN Val(RMul(a.si, Scale(u)), Dims(u), u, a.q)
  ELSE IF a.dims # Dims(u) THEN Err
  ELSE IF a.free THEN (IF a.dims = Dim0 THEN Ood ELSE Opt(Val(a.si, a.dims, u, Unknown)))
  \* a side on which an offset scale does not stand alone with power one (squared, inverted, multiplied with other
  \* units): refused, or the degree is an interval -- the zero point is never added
  ELSE IF (HasOffset(a.u) /\ ~AloneScale(a.u)) \/ (HasOffset(u) /\ ~AloneScale(u)) THEN Opt(Val(a.si, a.dims, u, Unknown))
  \* otherwise every offset scale involved stands alone: the defining affine formulas.  The source is brought to kelvin
  \* (its zero point added if it is an offset scale), the target's zero point is taken off if it is one; a side without
  \* an offset scale (K, mK, K ft/m, ...) only contributes its factor
  ELSE LET k == IF HasOffset(a.u) THEN AbsK(a) ELSE a.si
           si2 == IF HasOffset(u) THEN RSub(k, ZeroPoint(u)) ELSE k IN
       Val(si2, a.dims, u, IF a.u = u THEN a.q ELSE Unknown)
Cast0(a, u) ==      \* a to u
  IF Temperature /\ (Off(a) \/ HasOffset(u)) THEN TempCast(a, u)
  ELSE IF a.free THEN (IF HasOffset(u) \/ a.dims = Dim0 THEN Ood ELSE IF a.dims # Dims(u) THEN Err ELSE Val(a.si, a.dims, u, Unknown))
  ELSE LET c == Compatible(u, a.u) IN
       IF c = "ood" THEN Ood ELSE IF c = "no" THEN Err
       ELSE IF Plain(a) THEN Val(RMul(a.si, Scale(u)), Dims(u), u, a.q)      \* a plain number takes the unit
       ELSE Val(a.si, a.dims, u, IF a.u = u THEN a.q ELSE Unknown)
Cast(a, u) == IF a.opt THEN Opt(Cast0(a, u)) ELSE Cast0(a, u)

\* ---- the tree
TokKinds(toks) == TLCEval([i \in 1..Len(toks) |-> toks[i].k])
TokTexts(s, toks) == TLCEval([i \in 1..Len(toks) |-> Text(s, toks[i])])
UnitOf(s, toks, from, to) == UnitExpr(TokKinds(toks), TokTexts(s, toks), from, to)
FnName(cs) == IF cs = <<"f","l","o","o","r">> THEN "floor" ELSE IF cs = <<"c","e","i","l">> THEN "ceil"
              ELSE IF cs = <<"r","o","u","n","d">> THEN "round" ELSE IF cs = <<"s","i","n">> THEN "sin"
              ELSE IF cs = <<"c","o","s">> THEN "cos" ELSE "?"

RECURSIVE EvalAst(_, _, _), EvalArgs(_, _, _, _)
EvalArgs(s, toks, args, i) ==     \* [ok, vals] or the first non-value outcome
  IF i > Len(args) THEN [ok |-> TRUE, vals |-> <<>>, bad |-> Err]
  ELSE LET x == EvalAst(s, toks, args[i]) IN
       IF ~IsVal(x) THEN [ok |-> FALSE, vals |-> <<>>, bad |-> x]
       ELSE LET rest == EvalArgs(s, toks, args, i + 1) IN
            IF rest.ok THEN [rest EXCEPT !.vals = <<x.v>> \o @] ELSE rest
EvalAst(s, toks, ast) ==
  CASE ast.t = "num" -> LitVal(Text(s, toks[ast.i]))
    [] ast.t = "pct" -> LET x == LitVal(Text(s, toks[ast.i])) IN
                        IF IsVal(x) THEN Quantity(RDiv(x.v.si, RInt(100)), QDiv(x.v.q, <<100, 1>>), NoUnit) ELSE x
    [] ast.t = "qty" -> LET x == LitVal(Text(s, toks[ast.i]))
                            u == UnitOf(s, toks, ast.u[1], ast.u[2]) IN
                        IF ~IsVal(x) THEN x
                        ELSE IF u.k = "ood" THEN Ood ELSE IF u.k = "err" THEN Err
                        \* a unit named twice: the tool may refuse; if it accepts, value and dimensions are those of the product
                        ELSE IF u.multi THEN (IF \E j \in 1..Len(u.fs) : u.fs[j].u \in UOffsetKeys THEN Ood
                                              ELSE Opt(FreeVal(RMul(x.v.si, ScaleOfList(u.fs, 1)), DimsOfList(u.fs, 1))))
                        ELSE IF HasOffset(u.c) /\ ~Temperature THEN Ood
                        ELSE [Quantity(x.v.si, x.v.q, u.c) EXCEPT !.v.lit = x.v.lit]
    [] ast.t = "bin" -> LET r == EvalAst(s, toks, ast.r)       \* the tool evaluates the right operand first
                            l == EvalAst(s, toks, ast.l) IN
                        IF r.k = "ood" \/ l.k = "ood" THEN Ood
                        ELSE IF ~IsVal(r) THEN r ELSE IF ~IsVal(l) THEN l ELSE Apply(ast.op, l.v, r.v)
    [] ast.t = "cast" -> LET u == UnitOf(s, toks, ast.u[1], ast.u[2])
                             l == EvalAst(s, toks, ast.l) IN
                         IF u.k = "ood" \/ l.k = "ood" THEN Ood ELSE IF u.k = "err" THEN Err
                         ELSE IF ~IsVal(l) THEN l
                         ELSE IF u.multi \/ IsNoUnit(u.c) THEN Ood
                         ELSE Cast(l.v, u.c)
    [] ast.t = "call" -> LET a == EvalArgs(s, toks, ast.args, 1) IN
                         IF ~a.ok THEN a.bad ELSE Builtin(FnName(Text(s, toks[ast.i])), a.vals)
    [] ast.t = "phrase" -> Ood
    [] OTHER -> Err

\* the results of a whole query string (sequence of characters)
Results(s) ==
  LET toks == Lex(s)
      g == Grammar(toks) IN
  IF ~g.ok THEN [wf |-> FALSE, outs |-> <<>>]
  ELSE [wf |-> TRUE, outs |-> TLCEval([i \in 1..Len(g.asts) |-> EvalAst(s, toks, g.asts[i])])]
=============================================================================
