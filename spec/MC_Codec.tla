------------------------------- MODULE MC_Codec -------------------------------
EXTENDS Codec
VARIABLE x
Init == x = 0
Next == UNCHANGED x
Inv == Injective /\ Total /\ MutuallyInverse /\ Cardinality(UDerivedKeys) = 78
=============================================================================
