-------------------------------- MODULE MC_Cli --------------------------------
(* Cli.tla on every list of at most MaxLen results over {integer, fraction, one, error} x {no unit,
   numerator unit, denominator-only unit, pluralisable unit} x {exact, decimal}: printing the
   lines the model prescribes is accepted by Matches, and any single corruption of them (a missing
   blank, a plural where the value is one, a dropped line, stopping at the first error) is not.   *)
EXTENDS Cli, FiniteSets
CONSTANT MaxLen
Vals == {[num |-> "3", den |-> "1", decimal |-> "3"], [num |-> "1", den |-> "1", decimal |-> "1"], [num |-> "7", den |-> "2", decimal |-> "3.5"]}
Units == {[has_numerator |-> FALSE, unit_plural |-> "", unit_singular |-> ""],
          [has_numerator |-> TRUE, unit_plural |-> "m", unit_singular |-> "m"],
          [has_numerator |-> FALSE, unit_plural |-> "/s", unit_singular |-> "/s"],
          [has_numerator |-> TRUE, unit_plural |-> "decades", unit_singular |-> "decade"]}
Results == {[k |-> "val", msg |-> "", num |-> v.num, den |-> v.den, decimal |-> v.decimal, has_numerator |-> u.has_numerator,
             unit_plural |-> u.unit_plural, unit_singular |-> u.unit_singular] : v \in Vals, u \in Units}
           \cup {[k |-> "err", msg |-> "divide by zero", num |-> "", den |-> "", decimal |-> "", has_numerator |-> FALSE, unit_plural |-> "", unit_singular |-> ""]}
RECURSIVE PrintOut(_, _, _)
PrintOut(results, j, exact) == IF j > Len(results) THEN <<>>
                            ELSE (IF results[j].k = "val" THEN <<Line(results[j], exact)>> ELSE <<"error: " \o results[j].msg, "  | source", "">>)
                                 \o PrintOut(results, j + 1, exact)
VARIABLES rs, exact
Init == rs = <<>> /\ exact \in BOOLEAN
Next == Len(rs) < MaxLen /\ \E r \in Results : rs' = Append(rs, r) /\ UNCHANGED exact
Accepts == Matches(PrintOut(rs, 1, exact), rs, <<>>, exact) = ""
\* corruptions
DropLast(ls) == SubSeq(ls, 1, Len(ls) - 1)
RejectsDropped == (rs # <<>> /\ rs[Len(rs)].k = "val") => Matches(DropLast(PrintOut(rs, 1, exact)), rs, <<>>, exact) # ""
RejectsAlwaysBlank == (\E j \in 1..Len(rs) : rs[j].k = "val" /\ ~rs[j].has_numerator /\ rs[j].unit_plural # "") =>
   Matches(PrintOut([j \in 1..Len(rs) |-> IF rs[j].k = "val" THEN [rs[j] EXCEPT !.has_numerator = TRUE] ELSE rs[j]], 1, exact), rs, <<>>, exact) # ""
RejectsPluralOne == (\E j \in 1..Len(rs) : rs[j].k = "val" /\ IsOne(rs[j]) /\ rs[j].unit_plural # rs[j].unit_singular) =>
   Matches(PrintOut([j \in 1..Len(rs) |-> IF rs[j].k = "val" THEN [rs[j] EXCEPT !.unit_singular = rs[j].unit_plural] ELSE rs[j]], 1, exact), rs, <<>>, exact) # ""
=============================================================================
