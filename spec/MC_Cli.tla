-------------------------------- MODULE MC_Cli --------------------------------
(* Cli.tla on every list of at most MaxLen results over {integer, fraction, one, error} x {no unit,
   numerator unit, denominator-only unit, pluralisable unit} x {exact, decimal}: printing the
   lines the model prescribes is accepted by Matches, and any single corruption of them (a missing
   blank, a plural where the value is one, a dropped line, stopping at the first error) is not.   *)
EXTENDS Cli, FiniteSets
CONSTANT MaxLen
Vals == {[num |-> "3", den |-> "1", decimal |-> "3"], [num |-> "1", den |-> "1", decimal |-> "1"], [num |-> "7", den |-> "2", decimal |-> "3.5"]}
McNames == [k \in UKeys |-> IF k = "DECADE" THEN [sg |-> "decade", pl |-> "decades"] ELSE IF k = "Meter" THEN [sg |-> "m", pl |-> "m"]
                                 ELSE IF k = "Second" THEN [sg |-> "s", pl |-> "s"] ELSE [sg |-> "?", pl |-> "?s"]]
McSyms == [dot |-> "*", sup |-> <<"^0", "^1", "^2", "^3", "^4", "^5", "^6", "^7", "^8", "^9">>, micro |-> "u", corner |-> "+-", bar |-> "|", caret |-> "^"]
McText == "(1 / 0) (3 m) (2 / 0)"
Units == {<<>>, <<<<"Meter", 1, 0>>>>, <<<<"Second", -1, 0>>>>, <<<<"DECADE", 1, 0>>>>, <<<<"Meter", 12, 3>>, <<"DECADE", -1, 0>>>>}
Results == {[k |-> "val", msg |-> "", msg1 |-> "", num |-> v.num, den |-> v.den, decimal |-> v.decimal, u |-> u, s |-> 0, e |-> 0] : v \in Vals, u \in Units}
           \cup {[k |-> "err", msg |-> "divide by zero", msg1 |-> "divide by zero", num |-> "", den |-> "", decimal |-> "", u |-> <<>>, s |-> se[1], e |-> se[2]] :
                    se \in {<<1, 6>>, <<15, 20>>, <<0, 21>>, <<21, 21>>}}
RECURSIVE PrintOut(_, _, _)
PrintOut(results, j, exact) == IF j > Len(results) THEN <<>>
                            ELSE (IF results[j].k = "val" THEN <<Line(results[j], exact)>> ELSE DiagBlock(McText, results[j]))
                                 \o PrintOut(results, j + 1, exact)
VARIABLES rs, exact
Init == rs = <<>> /\ exact \in BOOLEAN
Next == Len(rs) < MaxLen /\ \E r \in Results : rs' = Append(rs, r) /\ UNCHANGED exact
Accepts == /\ Matches(PrintOut(rs, 1, exact), rs, <<>>, exact, McText, TRUE) = ""
           /\ Matches(PrintOut(rs, 1, exact), rs, <<>>, exact, McText, FALSE) = ""
\* corruptions
DropLast(ls) == SubSeq(ls, 1, Len(ls) - 1)
RejectsDropped == (rs # <<>> /\ rs[Len(rs)].k = "val") => Matches(DropLast(PrintOut(rs, 1, exact)), rs, <<>>, exact, McText, TRUE) # ""
\* a line with the blank always printed / the plural always used / a denominator pluralised is rejected
Corrupt(r, how) == LET c == CompoundOfList(r.u) IN
  CASE how = "blank" -> ValueText(r, exact) \o " " \o UnitText(c, ~IsOne(r), Names, Syms)
    [] how = "plural" -> ValueText(r, exact) \o (IF HasNumerator(c) THEN " " ELSE "") \o UnitText(c, TRUE, Names, Syms)
RECURSIVE PrintCorrupt(_, _, _)
PrintCorrupt(results, j, how) == IF j > Len(results) THEN <<>>
                                 ELSE (IF results[j].k = "val" THEN <<Corrupt(results[j], how)>> ELSE DiagBlock(McText, results[j]))
                                      \o PrintCorrupt(results, j + 1, how)
RejectsAlwaysBlank == (\E j \in 1..Len(rs) : rs[j].k = "val" /\ rs[j].u # <<>> /\ ~HasNumerator(CompoundOfList(rs[j].u))) =>
   Matches(PrintCorrupt(rs, 1, "blank"), rs, <<>>, exact, McText, TRUE) # ""
RejectsPluralOne == (\E j \in 1..Len(rs) : rs[j].k = "val" /\ IsOne(rs[j]) /\ rs[j].u = <<<<"DECADE", 1, 0>>>>) =>
   Matches(PrintCorrupt(rs, 1, "plural"), rs, <<>>, exact, McText, TRUE) # ""
\* a diagnostic whose underline or column is that of another range (one byte to the right, one byte shorter, the whole
\* query) is rejected for a plain query -- and accepted only as far as its first line for any other
Moved(r, how) == CASE how = "right" -> [r EXCEPT !.s = @ + 1, !.e = @ + 1]
                   [] how = "short" -> IF r.e > r.s + 1 THEN [r EXCEPT !.e = @ - 1] ELSE [r EXCEPT !.s = @ - 1]
                   [] how = "whole" -> [r EXCEPT !.s = 0, !.e = IF r.s = 0 /\ r.e = Len(McText) THEN r.e - 1 ELSE Len(McText)]
RECURSIVE PrintMoved(_, _, _, _)
PrintMoved(results, j, how, first) == IF j > Len(results) THEN <<>>
   ELSE (IF results[j].k = "val" THEN <<Line(results[j], exact)>> ELSE DiagBlock(McText, IF first THEN Moved(results[j], how) ELSE results[j]))
        \o PrintMoved(results, j + 1, how, first /\ results[j].k = "val")
RejectsMovedUnderline == (\E j \in 1..Len(rs) : rs[j].k = "err") =>
   \A how \in {"right", "short", "whole"} : /\ Matches(PrintMoved(rs, 1, how, TRUE), rs, <<>>, exact, McText, TRUE) = "diagnostic"
                                            /\ Matches(PrintMoved(rs, 1, how, TRUE), rs, <<>>, exact, McText, FALSE) = ""
DiagExample == DiagBlock("1 / 0 + 2", [msg |-> "divide by zero", s |-> 0, e |-> 5]) =
                 <<"error: divide by zero", "  +- <in>:1:1", "  |", "1 | 1 / 0 + 2", "  | ^^^^^ divide by zero", "">>
\* the composition itself on fixed examples
Examples == /\ UnitText(CompoundOfList(<<<<"Meter", 12, 3>>, <<"DECADE", -1, 0>>>>), TRUE, Names, Syms) = "km^1^2/decade"
            /\ UnitText(CompoundOfList(<<<<"DECADE", 1, 0>>>>), TRUE, Names, Syms) = "decades"
            /\ UnitText(CompoundOfList(<<<<"DECADE", 1, 0>>, <<"Meter", 1, 0>>>>), TRUE, Names, Syms) = "decade*m"
            /\ UnitText(CompoundOfList(<<<<"KiloGram", 1, -3>>>>), FALSE, Names, Syms) = "?"
            /\ UnitText(CompoundOfList(<<<<"KiloGram", 2, 0>>>>), FALSE, Names, Syms) = "k?^2"
            /\ UnitText(CompoundOfList(<<<<"Meter", 1, 4>>>>), FALSE, Names, Syms) = "e-1km"
=============================================================================
