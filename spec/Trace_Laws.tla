----------------------------- MODULE Trace_Laws -----------------------------
(* Implementation -> specification for the field laws of quantity arithmetic (C13).

   Every line: one instance of a law over quantities a, b, c (literals with units or facts looked up in
   the database), with the results the real tool gave for the two sides:
     law   "add-comm" a+b = b+a          "mul-comm" a*b = b*a        "add-assoc" (a+b)+c = a+(b+c)
           "mul-assoc" (a*b)*c = a*(b*c) "distr" a*(b+c) = a*b+a*c   "sub-self" a-a = 0   "div-self" a/a = 1
     lhs, rhs   [k |-> "val", neg, n, d (limbs), u |-> <<[key, pw, px]>>] or [k |-> "err"]
   Equality means: the same value in SI base units (number * Scale(unit), in F_p for every prime that
   is not blind) and the same base dimensions -- whichever units the tool chose to display.
   "sub-self": the left side is zero with the dimensions of a (the right side is a itself);
   "div-self": the left side is the dimensionless one.
   Both sides failing is not an instance (operands incompatible); one side failing is a violation. *)
EXTENDS Units, Json, IOUtils, TLCExt, FiniteSets

Rec == ndJsonDeserialize(IOEnv.TRACE)
Obs == IF "OBSERVED" \in DOMAIN IOEnv THEN JsonDeserialize(IOEnv.OBSERVED) ELSE <<>>
ObsFacR(u) == IF u \in DOMAIN Obs THEN RDiv(RLimbs(Obs[u].n), RLimbs(Obs[u].d)) ELSE UStdFacR(u)

CompoundOf(us) == TLCEval([k \in {us[i][1] : i \in 1..Len(us)} |->
                     LET i == CHOOSE j \in 1..Len(us) : us[j][1] = k IN [pw |-> us[i][2], px |-> us[i][3]]])
KnownKeys(us) == \A i \in 1..Len(us) : us[i][1] \in UKeys
SIOf(v) == LET x == RMul(RDiv(RLimbs(v.n), RLimbs(v.d)), Scale(CompoundOf(v.u))) IN IF v.neg THEN RNeg(x) ELSE x
DimsOf(v) == Dims(CompoundOf(v.u))
Decidable(v) == v.k = "val" /\ KnownKeys(v.u) /\ ~HasOffset(CompoundOf(v.u))
Check(r) ==
  IF r.lhs.k = "err" /\ r.rhs.k = "err" THEN [inst |-> FALSE, problems |-> <<>>]
  \* a / a for a = 0 is a division by zero, not an instance of the law
  ELSE IF r.law = "div-self" /\ r.lhs.k = "err" /\ Decidable(r.rhs) /\ RZero(SIOf(r.rhs)) THEN [inst |-> FALSE, problems |-> <<>>]
  ELSE IF r.lhs.k = "err" \/ r.rhs.k = "err" THEN [inst |-> TRUE, problems |-> <<"one-side-fails">>]
  ELSE IF ~Decidable(r.lhs) \/ ~Decidable(r.rhs) THEN [inst |-> FALSE, problems |-> <<>>]
  ELSE LET l == SIOf(r.lhs)
           rr == SIOf(r.rhs)
           p1 == IF r.law = "sub-self" THEN (IF RZero(l) THEN <<>> ELSE <<"not-zero">>)
                 ELSE IF r.law = "div-self" THEN (IF REq(l, RInt(1)) THEN <<>> ELSE <<"not-one">>)
                 ELSE IF REq(l, rr) THEN <<>> ELSE <<"value">>
           p2 == IF r.law = "div-self" THEN (IF DimsOf(r.lhs) = Dim0 THEN <<>> ELSE <<"not-dimensionless">>)
                 ELSE IF DimsOf(r.lhs) = DimsOf(r.rhs) THEN <<>> ELSE <<"dims">> IN
       [inst |-> TRUE, problems |-> p1 \o p2]

VARIABLES l, ninst
Init == l = 1 /\ ninst = 0
Next == /\ l <= Len(Rec) /\ l' = l + 1
        /\ LET c == Check(Rec[l]) IN
           /\ ninst' = ninst + (IF c.inst THEN 1 ELSE 0)
           /\ (c.problems = <<>> \/ PrintT(<<"MISMATCH", ToJson([l |-> l, id |-> Rec[l].id, problems |-> c.problems])>>))
Done == l = Len(Rec) + 1 => PrintT(<<"SUMMARY", ToJson([records |-> Len(Rec), judged |-> ninst, decided |-> ninst])>>)
=============================================================================
