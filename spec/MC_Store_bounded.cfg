\* bounded faults so that MetaNeverAhead (state form) is meaningful
SPECIFICATION Spec
CONSTANTS
  InvalidateFirst = TRUE
  MetaBeforeCommit = FALSE
  NDocs = 3
  MaxFaults = 2
  MaxCrashes = 3
INVARIANT TypeOK
INVARIANT AnswersAsFresh
INVARIANT MetaNeverAhead
PROPERTY MetaWrittenAfterCommit
CHECK_DEADLOCK FALSE
