SPECIFICATION MCSpec
CONSTANTS
  InvalidateFirst = TRUE
  MetaBeforeCommit = FALSE
  NDocs = 2
  MaxFaults = 1
  MaxCrashes = 1
  MaxStarts = 2
  Emit = TRUE
INVARIANT AnswersAsFresh
INVARIANT EmitInv
CHECK_DEADLOCK FALSE
