------------------------------ MODULE MC_Lexer ------------------------------
(* Every concrete string up to length N over an alphabet with one representative per
   character class (multi-byte characters and Unicode blanks included), grown one character
   at a time.  In every state (C12):
     TilesInv        the tokens Lexer.tla produces are non-empty and cover the input exactly once,
                     every boundary on a character boundary
     ParserLossless  Parser.tla attributes every token to exactly one leaf of the tree, in order
   With Emit every string up to EmitLen is printed with the expected token list, for replay
   into the real lexer and parser.                                                          *)
EXTENDS Lexer, Parser, Json
CONSTANTS N, EmitLen, Emit
Alphabet == {"1", ".", "e", "+", "-", "t", "o", "a", " ", "*", "(", ")", "{", "}", "%", ",", "/", "^",
             "EACUTE", "EMSP", "DEG", "'"}
VARIABLE s
Init == s = <<>>
Next == Len(s) < N /\ \E c \in Alphabet : s' = Append(s, c)
Spec == Init /\ [][Next]_s
TilesInv == Tiles(s, LexBytes(s))
Kinds == {"WHITESPACE", "OPEN_BRACE", "CLOSE_BRACE", "NUMBER", "ERROR", "COMMA", "STAR", "STARSTAR", "SLASH",
          "PLUS", "DASH", "CARET", "PERCENTAGE", "OPEN_PAREN", "CLOSE_PAREN", "TO", "WORD"}
KindsInv == \A i \in 1..Len(Lex(s)) : Lex(s)[i].k \in Kinds
ParserLossless == LET ts == Lex(s) IN Lossless(TLCEval([i \in 1..Len(ts) |-> ts[i].k]))
RECURSIVE JoinNames(_, _)
JoinNames(cs, i) == IF i > Len(cs) THEN <<>> ELSE <<cs[i]>> \o JoinNames(cs, i + 1)
EmitInv == (Emit /\ Len(s) <= EmitLen /\ Len(s) >= 1) => PrintT(<<"VEC", ToJson([src |-> s])>>)
=============================================================================
