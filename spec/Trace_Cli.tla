------------------------------- MODULE Trace_Cli -------------------------------
(* Implementation -> specification for C19: one line per run of the real `any` binary: mode (default,
   exact, describe), the results the library computed for the same query in process, the lines the
   binary printed, its exit status.                                                              *)
EXTENDS Cli, Json, IOUtils, TLCExt
Rec == ndJsonDeserialize(IOEnv.TRACE)
\* how the tool spells each single unit (measured: `1 <unit>`, `2 <unit>`), and the symbols of unit display
EnvNames == JsonDeserialize(IOEnv.NAMES)
EnvSyms == JsonDeserialize(IOEnv.SYMS)
KnownUnits(r) == \A i \in 1..Len(r.results) : \A j \in 1..Len(r.results[i].u) : r.results[i].u[j][1] \in DOMAIN EnvNames
Check(r) ==
  IF r.lib_panic # "" \/ r.lib_parse_error # "" THEN <<>>        \* nothing computed: C11's subject
  ELSE IF ~KnownUnits(r) THEN <<"unknown-unit">>
  ELSE LET m == Matches(r.stdout, r.results, IF r.mode \in {"describe", "describe_after"} THEN r.descs ELSE <<>>, r.mode = "exact") IN
       (IF m # "" THEN <<m>> ELSE <<>>) \o (IF r.exit # 0 THEN <<"exit-status">> ELSE <<>>)
VARIABLES l
Init == l = 1
Next == /\ l <= Len(Rec) /\ l' = l + 1
        /\ LET c == Check(Rec[l]) IN
           (c = <<>> \/ PrintT(<<"MISMATCH", ToJson([l |-> l, id |-> Rec[l].id, problems |-> c])>>))
Done == l = Len(Rec) + 1 => PrintT(<<"SUMMARY", ToJson([records |-> Len(Rec), judged |-> Len(Rec), decided |-> Len(Rec)])>>)
=============================================================================
