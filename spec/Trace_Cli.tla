------------------------------- MODULE Trace_Cli -------------------------------
(* Implementation -> specification for C19: one line per run of the real `any` binary: mode (default,
   exact, describe, syntax), the results the library computed for the same query in process, the lines the
   binary printed, its exit status.  In mode `syntax` the output starts with the dump of the syntax tree
   (Syntax.tla: the tree Parser.tla builds from Lexer.tla's tokens), followed by the results as in
   default mode.                                                                                  *)
EXTENDS Cli, Json, IOUtils, TLCExt
S == INSTANCE Syntax WITH StaleSkip <- FALSE, ParenReusesSkip <- FALSE, EatIgnoresSkip <- FALSE,
                          RelabelInsteadOfPop <- FALSE, TokensAreResults <- FALSE
Rec == ndJsonDeserialize(IOEnv.TRACE)
\* how the tool spells each single unit (measured: `1 <unit>`, `2 <unit>`), and the symbols of unit display
EnvNames == JsonDeserialize(IOEnv.NAMES)
EnvSyms == JsonDeserialize(IOEnv.SYMS)
KnownUnits(r) == \A i \in 1..Len(r.results) : \A j \in 1..Len(r.results[i].u) : r.results[i].u[j][1] \in DOMAIN EnvNames
Check(r) ==
  IF r.lib_panic # "" \/ r.lib_parse_error # "" THEN <<>>        \* nothing computed: C11's subject
  ELSE IF ~KnownUnits(r) THEN <<"unknown-unit">>
  ELSE IF r.mode = "syntax" THEN
       LET d == S!DumpLines(r.src, r.dbg) IN
       IF Len(r.stdout) < Len(d) \/ SubSeq(r.stdout, 1, Len(d)) # d THEN <<"syntax-dump">>
       ELSE LET m == Matches(SubSeq(r.stdout, Len(d) + 1, Len(r.stdout)), r.results, <<>>, FALSE, r.text, r.plain) IN
            (IF m # "" THEN <<m>> ELSE <<>>) \o (IF r.exit # 0 THEN <<"exit-status">> ELSE <<>>)
  ELSE LET m == Matches(r.stdout, r.results, IF r.mode \in {"describe", "describe_after"} THEN r.descs ELSE <<>>, r.mode = "exact", r.text, r.plain) IN
       (IF m # "" THEN <<m>> ELSE <<>>) \o (IF r.exit # 0 THEN <<"exit-status">> ELSE <<>>)
VARIABLES l
Init == l = 1
Next == /\ l <= Len(Rec) /\ l' = l + 1
        /\ LET c == Check(Rec[l]) IN
           (c = <<>> \/ PrintT(<<"MISMATCH", ToJson([l |-> l, id |-> Rec[l].id, problems |-> c])>>))
Done == l = Len(Rec) + 1 => PrintT(<<"SUMMARY", ToJson([records |-> Len(Rec), judged |-> Len(Rec), decided |-> Len(Rec)])>>)
=============================================================================
