----------------------------- MODULE MC_Parser -----------------------------
(* Every token string up to length N over an alphabet of token kinds, grown one token at a
   time (so that TLC's workers share the enumeration): Lossless, Refines and Sound of
   Parser.tla must hold in every state.  Two adjacent WHITESPACE tokens are excluded: the lexer
   merges them (Lexer.tla), and the parser's Skip arithmetic relies on that.                *)
EXTENDS Parser
CONSTANTS N, Alphabet
VARIABLE ks
Init == ks = <<>>
Next == /\ Len(ks) < N
        /\ \E k \in Alphabet : /\ ~(k = "WHITESPACE" /\ Len(ks) >= 1 /\ ks[Len(ks)] = "WHITESPACE")
                               /\ ks' = Append(ks, k)
Spec == Init /\ [][Next]_ks
LosslessInv == Lossless(ks)
RefinesInv == Refines(ks)
SoundInv == Sound(ks)
Arith == {"NUMBER", "WHITESPACE", "DASH", "STAR", "CARET", "OPEN_PAREN", "CLOSE_PAREN"}
ArithNoBlank == Arith \ {"WHITESPACE"}
Quant == {"NUMBER", "WORD", "WHITESPACE", "TO", "PLUS", "SLASH", "OPEN_PAREN", "CLOSE_PAREN"}
Calls == {"NUMBER", "WORD", "WHITESPACE", "COMMA", "DASH", "OPEN_PAREN", "CLOSE_PAREN", "PERCENTAGE"}
All == {"WHITESPACE", "STAR", "STARSTAR", "SLASH", "PLUS", "DASH", "CARET", "COMMA", "OPEN_PAREN", "CLOSE_PAREN",
        "OPEN_BRACE", "CLOSE_BRACE", "TO", "WORD", "NUMBER", "PERCENTAGE", "ERROR"}
=============================================================================
