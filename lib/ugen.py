"""Generators of unit words, unit expressions and quantities for the unit-related checks.

Nothing here is an oracle: the expected outcome of every generated query is computed by TLC
from the query's characters (UnitWords.tla / Units.tla / Eval.tla).  The dimension bookkeeping
below only steers the generators towards interesting inputs (commensurable pairs spelled
differently, cancelling factors, near misses)."""
import json, os, random
from fractions import Fraction
import lang

BASES = ["kg", "m", "s", "A", "K", "mol", "cd", "B"]
BASE_WORD = {"kg": "kg", "m": "m", "s": "s", "A": "A", "K": "K", "mol": "mol", "cd": "cd", "B": "B"}
SPECIAL = {"°": "DEG", "Ω": "OMEGA", "μ": "MU"}


class Vocab:
    def __init__(self):
        t = lang.unit_table()
        self.units = t["units"]
        self.prefixes = t["prefixes"]          # [symbol, long, exponent]
        self.offset = set(t["offsets"])
        self.names = {}                        # spelling -> [(key, bias)]
        for k, u in self.units.items():
            for n in u["names"]:
                self.names.setdefault(n, []).append((k, u.get("bias", 0)))
        self.pref = {}
        for sym, long, e in self.prefixes:
            self.pref[sym] = e
            self.pref[long] = e
        self._rcache = {}
        self.by_dims = {}
        for k, u in self.units.items():
            if k in self.offset:
                continue
            self.by_dims.setdefault(self.dimkey(u["dims"]), []).append(k)

    @staticmethod
    def dimkey(d):
        return tuple(d.get(b, 0) for b in BASES)

    def readings(self, w):
        """all ways to read a word as (prefix? name)+ : list of lists of (exp10, key)"""
        if w in self._rcache:
            return self._rcache[w]

        def go(i):
            if i == len(w):
                return [[]]
            out = []
            for n, ks in self.names.items():
                if w.startswith(n, i):
                    for k, b in ks:
                        for r in go(i + len(n)):
                            out.append([(b, k)] + r)
            for p, e in self.pref.items():
                if w.startswith(p, i):
                    j = i + len(p)
                    for n, ks in self.names.items():
                        if w.startswith(n, j):
                            for k, b in ks:
                                for r in go(j + len(n)):
                                    out.append([(e + b, k)] + r)
            return out if len(out) < 50 else out[:50]
        r = go(0)
        self._rcache[w] = r
        return r

    def greedy(self, w):
        """the longest-match procedure of the generated unit parser (UnitWords.ParseWord), for steering only"""
        shared = set(self.pref) & set(self.names)
        out, i = [], 0

        def partial(i, spellings):
            best = 0
            for sp in spellings:
                k = 0
                while k < len(sp) and i + k < len(w) and w[i + k] == sp[k]:
                    k += 1
                best = max(best, k)
            return best
        combined = [n for n in self.names if n not in shared] + list(self.pref)
        while i < len(w):
            us = [n for n in self.names if n not in shared and w.startswith(n, i)]
            ps = [p for p in self.pref if w.startswith(p, i)]
            lu = max((len(n) for n in us), default=0)
            lp = max((len(p) for p in ps), default=0)
            if lu == 0 and lp == 0:
                return None
            if partial(i, combined) > max(lu, lp):
                return None          # backtracking situation of the generated lexer: avoided by the generators
            if lu > lp:
                n = max(us, key=len)
                k, b = self.names[n][0]
                out.append((b, k))
                i += lu
                continue
            p = max(ps, key=len)
            j = i + lp
            if j == len(w) and p in self.names:
                k, b = self.names[p][0]
                out.append((b, k))
                i = j
                continue
            ns = [n for n in self.names if w.startswith(n, j)]
            if not ns or partial(j, self.names) > max(len(n) for n in ns):
                return None
            n = max(ns, key=len)
            k, b = self.names[n][0]
            out.append((self.pref[p] + b, k))
            i = j + len(n)
        return out

    def unambiguous(self, w):
        r = self.readings(w)
        return len(r) == 1 and len(r[0]) == 1 and self.greedy(w) == r[0]

    def typable(self, w):
        return all(c.isascii() and (c.isalnum() or c == "'") or c == "°" for c in w) and not w[0].isdigit() and w != "to"

    def word_for(self, rnd, key, allow_prefix=True):
        """a spelling (name, optionally prefixed) of unit `key` with exactly one reading; returns (word, exp10)"""
        u = self.units[key]
        names = [n for n in u["names"] if self.typable(n)]
        for _ in range(20):
            n = rnd.choice(names)
            if allow_prefix and rnd.random() < 0.35:
                sym, long, e = rnd.choice(self.prefixes)
                p = sym if (len(n) <= 3 or rnd.random() < 0.5) else long
                w = p + n
                if self.typable(w) and self.unambiguous(w) and self.readings(w)[0][0][1] == key:
                    return w, e + u.get("bias", 0)
            if self.unambiguous(n) and self.readings(n)[0][0][1] == key:
                return n, u.get("bias", 0)
        return None, 0


def dim_add(a, b, n=1):
    return tuple(x + n * y for x, y in zip(a, b))


ZERO = tuple(0 for _ in BASES)


class UnitGen:
    """random unit expressions as lists of terms [(word, key, power)] with their dimension vector"""

    def __init__(self, vocab, rnd, keys=None, maxpow=3):
        self.v = vocab
        self.rnd = rnd
        probe = random.Random(7)
        self.keys = [k for k in (keys or [k for k in vocab.units if k not in vocab.offset]) if vocab.word_for(probe, k, allow_prefix=False)[0]]
        vocab.by_dims = {d: [k for k in ks if k in self.keys] for d, ks in vocab.by_dims.items()}
        self.maxpow = maxpow

    def term(self, key=None, power=None):
        rnd = self.rnd
        for _ in range(50):
            k = key or rnd.choice(self.keys)
            w, e = self.v.word_for(rnd, k)
            if w:
                p = power if power is not None else rnd.choice([1, 1, 1, 2, -1, -1, -2, 3, -3][: 4 + 2 * self.maxpow])
                return (w, k, p)
        raise RuntimeError("no spelling for %s" % key)

    def expr(self, nterms=None):
        n = nterms or self.rnd.choice([1, 1, 2, 2, 3, 4])
        terms, seen = [], set()
        for _ in range(n * 3):
            t = self.term()
            if t[1] in seen:
                continue
            seen.add(t[1])
            terms.append(t)
            if len(terms) == n:
                break
        return terms

    def dims(self, terms):
        d = ZERO
        for w, k, p in terms:
            d = dim_add(d, self.v.dimkey(self.v.units[k]["dims"]), p)
        return d

    def spell(self, terms, style=None):
        """characters of a unit expression; positive powers first, then `/` and the negative ones
        (a `/` inverts everything after it), or explicit signed exponents"""
        rnd = self.rnd
        style = style or rnd.choice(["slash", "exp", "slash", "mixed"])
        pos = [t for t in terms if t[2] > 0]
        neg = [t for t in terms if t[2] < 0]

        def one(w, p):
            if p == 1:
                return w
            return w + rnd.choice(["^", "**"]) + str(p)

        def join(ts, signed):
            parts = [one(w, p if signed else abs(p)) for w, k, p in ts]
            out = parts[0]
            for x in parts[1:]:
                out += rnd.choice(["*", " ", "*"]) + x
            return out
        if style == "exp" or not pos:
            return join(terms, True)
        if not neg:
            return join(pos, True)
        return join(pos, True) + "/" + join(neg, False)

    def respell(self, terms):
        """another spelling with the same base dimensions: swap a unit for one of equal dimensions, expand a
        derived unit into base units, insert a cancelling quotient, or change prefixes"""
        rnd = self.rnd
        out = list(terms)
        used = {k for _, k, _ in out}
        for _ in range(rnd.choice([1, 1, 2])):
            c = rnd.random()
            i = rnd.randrange(len(out))
            w, k, p = out[i]
            dk = self.v.dimkey(self.v.units[k]["dims"])
            if c < 0.35:
                alts = [x for x in self.v.by_dims.get(dk, []) if x not in used]
                if alts:
                    k2 = rnd.choice(alts)
                    t = self.term(k2, p)
                    used.discard(k)
                    used.add(k2)
                    out[i] = t
            elif c < 0.6:
                # expand into base units
                exp = []
                ok = True
                for b, e in zip(BASES, dk):
                    if e:
                        bk = {"kg": "KiloGram", "m": "Meter", "s": "Second", "A": "Ampere", "K": "Kelvin", "mol": "Mole", "cd": "Candela", "B": "Byte"}[b]
                        if bk in used and bk != k:
                            ok = False
                        exp.append((bk, e * p))
                if ok and exp and not (len(exp) == 1 and exp[0][0] == k):
                    del out[i]
                    used.discard(k)
                    for bk, e in exp:
                        out.append(self.term(bk, e))
                        used.add(bk)
            elif c < 0.85:
                # a cancelling quotient X / X' of equal dimensions
                k1 = rnd.choice(self.keys)
                alts = [x for x in self.v.by_dims.get(self.v.dimkey(self.v.units[k1]["dims"]), []) if x != k1 and x not in used]
                if alts and k1 not in used:
                    k2 = rnd.choice(alts)
                    q = rnd.choice([1, 1, 2])
                    out.append(self.term(k1, q))
                    out.append(self.term(k2, -q))
                    used |= {k1, k2}
            else:
                out[i] = self.term(k, p)
        return out

    def perturb(self, terms):
        """a near miss: one power changed, or one unit swapped for one of other dimensions"""
        rnd = self.rnd
        out = list(terms)
        i = rnd.randrange(len(out))
        w, k, p = out[i]
        if rnd.random() < 0.5:
            q = p + rnd.choice([1, -1])
            if q == 0:
                q = -p
            out[i] = (w, k, q)
        else:
            used = {x for _, x, _ in out}
            for _ in range(20):
                k2 = rnd.choice(self.keys)
                if k2 not in used and self.v.dimkey(self.v.units[k2]["dims"]) != self.v.dimkey(self.v.units[k]["dims"]):
                    out[i] = self.term(k2, p)
                    break
        return out


def magnitude(rnd, simple=False):
    if rnd.random() < 0.08:
        return rnd.choice(["0", "0", "0.0", "1", "-1"])
    if simple or rnd.random() < 0.4:
        return str(rnd.randint(1, 99))
    return lang.rand_literal(rnd, maxdigits=rnd.choice([2, 4, 8]), allow_exp=rnd.random() < 0.3, allow_neg=rnd.random() < 0.3)


def quantity(rnd, ug, terms=None, simple=False):
    terms = terms or ug.expr()
    sep = rnd.choice(["", " ", ""])
    return magnitude(rnd, simple) + sep + ug.spell(terms), terms


# ------------------------------------------------------------------ every unit word in a dimensional context (C05, C02)
TARGETS = [("m/s^2", {"m": 1, "s": -2}), ("m/s", {"m": 1, "s": -1}), ("N", {"kg": 1, "m": 1, "s": -2}), ("J", {"kg": 1, "m": 2, "s": -2}),
           ("W", {"kg": 1, "m": 2, "s": -3}), ("Pa", {"kg": 1, "m": -1, "s": -2}), ("Hz", {"s": -1}), ("m^2", {"m": 2}), ("m^3", {"m": 3}), ("kg/m^3", {"kg": 1, "m": -3}),
           ("C", {"A": 1, "s": 1}), ("V", {"kg": 1, "m": 2, "s": -3, "A": -1}), ("kg", {"kg": 1}), ("m", {"m": 1}), ("s", {"s": 1}), ("A", {"A": 1}), ("mol/m^3", {"mol": 1, "m": -3}),
           ("lx", {"cd": 1, "m": -2}), ("B/s", {"B": 1, "s": -1}), ("m/s^3", {"m": 1, "s": -3}), ("kg m/s", {"kg": 1, "m": 1, "s": -1})]


def gen_context(rnd, v, n):
    """Every unit word in a dimensional context: the word as one factor (numerator or denominator) of an expression that
    is cast to a target of a common kind of quantity (acceleration, force, energy, ...), the other factors being base
    units chosen so that the dimensions agree -- a word must mean the same whatever it is being converted to; and the
    word alone cast to such a target, which has to be refused unless the dimensions agree."""
    words = [w for w in v.names if v.typable(w) and v.unambiguous(w) and v.names[w][0][0] not in v.offset]
    out = []
    for w0 in words:
        key = v.names[w0][0][0]
        dw = v.units[key]["dims"]
        for t, dt in TARGETS:
            for form in ("alone", "num", "den"):
                # n: the share of the factor forms that is asked (0 = all); the word alone is always asked
                if n and form != "alone" and rnd.random() > n:
                    continue
                w = w0
                if rnd.random() < 0.25:
                    w2, _ = v.word_for(rnd, key)
                    w = w2 or w
                if form == "alone":
                    out.append("%s %s to %s" % (magnitude(rnd, True), w, t))      # refused unless the word has these dimensions
                    continue
                sign = 1 if form == "num" else -1
                comp = {b: dt.get(b, 0) - sign * dw.get(b, 0) for b in BASES}
                comp = [(BASE_WORD[b], e) for b, e in comp.items() if e != 0]
                rnd.shuffle(comp)
                cs = rnd.choice(["*", " "]).join(x if e == 1 else "%s^%d" % (x, e) for x, e in comp)
                if sign == 1:
                    q = w if not cs else (w + rnd.choice(["*", " "]) + cs if rnd.random() < 0.5 else cs + rnd.choice(["*", " "]) + w)
                else:
                    q = (cs if cs else "1") + "/" + w
                    if not cs:
                        continue
                out.append("%s %s to %s" % (magnitude(rnd, True), q, t))
    return out
