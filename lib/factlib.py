"""shipped facts as the checks need them: search words of every constant (decoded from /repo/db by the harness,
independently of the library's loader)"""
import os
import vlib


def shipped(name="facts"):
    w = os.path.join(vlib.WORK, name)
    os.makedirs(w, exist_ok=True)
    lst = os.path.join(w, "facts.ndjson")
    vlib.conform(["facts-list", "--repo", vlib.REPO, "--out", lst])
    return vlib.read_ndjson(lst)


def simple_word(t):
    return t.isascii() and t.isalnum() and not t[0].isdigit() and t != "to"


def phrases(facts):
    """phrases made of plain words only (the specification decides typability itself; this only spares the obvious)"""
    out = []
    for f in facts:
        toks = f["tokens"]
        if toks and all(simple_word(t) for t in toks):
            out.append(" ".join(toks))
    return sorted(set(out))
