"""Binding self-test: a trace validator that accepts everything binds nothing.

After a check has validated the records of the real code against its `Trace_*` module, a handful of those very
records are corrupted -- one recorded field each, the way a wrong implementation would have produced it -- and handed
to the same module with the same constants.  Every kind of corruption has to be rejected (a MISMATCH line for the
corrupted record) on at least one record; otherwise the check stops with a tool error (exit 2): nothing the validator
said about the real records could then be believed.  The outcome is written to the evidence file
(coverage.binding_selftest).  The self-test never produces a VIOLATION.
"""
import copy


def _bump(limbs):
    """another natural number in the base-10^4 limb notation"""
    l = list(limbs) or [0]
    l[-1] = (l[-1] + 1) % 10000
    if l == [0] * len(l):
        l[-1] = 1
    if l[0] == 0 and len(l) > 1:
        l[0] = 1
    return l


def _first_val(vals):
    for v in vals or []:
        if isinstance(v, dict) and v.get("k") == "val":
            return v
    return None


def lang_value(r):
    v = _first_val(r.get("res"))
    if v is None or r.get("panic"):
        return None
    v["n"] = _bump(v["n"])
    return r


def lang_sign(r):
    v = _first_val(r.get("res"))
    if v is None or v["n"] == [0] or r.get("panic"):
        return None
    v["neg"] = not v["neg"]
    return r


def lang_unit(r):
    v = _first_val(r.get("res"))
    if v is None or not v.get("u") or r.get("panic"):
        return None
    v["u"][0][1] += 1
    if v["u"][0][1] == 0:
        v["u"][0][1] = 1
    return r


def lang_app(r):
    for a in reversed(r.get("apps") or []):
        if a.get("out", {}).get("k") == "val" and a.get("op") not in ("sin", "cos"):
            a["out"]["n"] = _bump(a["out"]["n"])
            return r
    return None


def lang_error(r):
    v = _first_val(r.get("res"))
    if v is None or r.get("panic") or r["res"][0].get("k") != "val":
        return None
    r["res"][0] = {"k": "err", "msg": "divide by zero", "s": 0, "e": 1}
    return r


def _leaves(tree, out):
    for n in tree:
        if n.get("leaf"):
            out.append(n)
        _leaves(n.get("ch", []), out)
    return out


def parse_token_len(r):
    if not r.get("toks") or r.get("deep"):
        return None
    r["toks"][0][1] += 1
    return r


def parse_token_kind(r):
    if r.get("deep"):
        return None
    for t in r.get("toks") or []:
        if t[0] == "NUMBER":
            t[0] = "WORD"
            return r
    return None


def parse_leaf(r):
    if r.get("deep") or not r.get("tree"):
        return None
    ls = _leaves(r["tree"], [])
    if not ls:
        return None
    ls[-1]["len"] += 1
    return r


def parse_leaf_lost(r):
    """the last token is not in the tree (the tree silently drops input)"""
    if r.get("deep") or not r.get("tree") or len(r.get("toks") or []) < 2:
        return None

    def drop(nodes):
        for k in range(len(nodes) - 1, -1, -1):
            if nodes[k].get("leaf"):
                del nodes[k]
                return True
            if drop(nodes[k].get("ch", [])):
                return True
        return False
    return r if drop(r["tree"]) else None


def parse_label(r):
    if r.get("deep") or not r.get("tree"):
        return None

    def relabel(nodes):
        for n in nodes:
            if not n.get("leaf") and n.get("k") == "OPERATION":
                n["k"] = "WITH_UNIT"
                return True
            if relabel(n.get("ch", [])):
                return True
        return False
    return r if relabel(r["tree"]) else None


def outcome_panic(r):
    if r.get("panic"):
        return None
    r["panic"] = "index out of bounds: the len is 0 but the index is 0"
    r["res"] = []
    return r


def outcome_no_result(r):
    if r.get("panic") or not r.get("res"):
        return None
    r["res"] = []
    r["shown"] = []
    return r


def literal_value(r):
    if not isinstance(r.get("lib"), dict) or "n" not in r["lib"]:
        return None
    r["lib"]["n"] = _bump(r["lib"]["n"])
    return r


def display_digit(r):
    if r.get("panic") or not r.get("chars"):
        return None
    for k in range(len(r["chars"]) - 1, -1, -1):
        c = r["chars"][k]
        if c in "0123456789":
            r["chars"][k] = "7" if c != "7" else "3"
            r["text"] = "".join(r["chars"])
            return r
    return None


def display_truncated(r):
    """the last digit silently dropped"""
    if r.get("panic") or len(r.get("chars") or []) < 3 or "." not in r["chars"] or "e" in r["chars"] or "…" in r["chars"]:
        return None
    if r["chars"][-1] not in "0123456789" or r["chars"][-2] == ".":
        return None
    r["chars"] = r["chars"][:-1]
    r["text"] = "".join(r["chars"])
    return r


def words_power(r):
    if not r.get("ok") or not r.get("units"):
        return None
    r["units"][0][1] += 1
    if r["units"][0][1] == 0:
        r["units"][0][1] = 1
    return r


def words_prefix(r):
    if not r.get("ok") or not r.get("units"):
        return None
    r["units"][0][2] += 3
    return r


def laws_side(r):
    if r.get("rhs", {}).get("k") != "val" or r.get("lhs", {}).get("k") != "val":
        return None
    r["rhs"]["n"] = _bump(r["rhs"]["n"])
    return r


def facts_not_found(r):
    if not r.get("found"):
        return None
    r["found"] = False
    r["why"] = "not-found"
    return r


def codec_identifier(r):
    if r.get("kind") != "unit" or not r.get("ok") or not r.get("derived"):
        return None
    r["written"] = str(int(r["written"]) + 1) if r["written"].isdigit() else r["written"] + "1"
    return r


def codec_unit_lost(r):
    if r.get("kind") != "unit" or not r.get("ok"):
        return None
    r["cbor"] = False
    return r


def codec_compound(r):
    if r.get("kind") != "compound" or not r.get("parsed") or not r.get("cbor"):
        return None
    r["cbor"][0][1] += 1
    return r


def codec_rational(r):
    if r.get("kind") != "rational":
        return None
    r["json"] = r["json"] + "0"
    return r


def codec_constant(r):
    if r.get("kind") != "constant":
        return None
    r["same"] = False
    return r


def describe_drops(r):
    if not r.get("describe") or not r.get("descs"):
        return None
    r["descs"] = r["descs"][:-1]
    return r


def describe_value(r):
    v = _first_val(r.get("res"))
    if v is None or r.get("panic"):
        return None
    v["n"] = _bump(v["n"])
    return r


def cli_stdout(r):
    if not r.get("stdout") or r.get("exit") != 0:
        return None
    line = r["stdout"][0]
    for k, c in enumerate(line):
        if c in "0123456789":
            r["stdout"][0] = line[:k] + ("7" if c != "7" else "3") + line[k + 1:]
            return r
    return None


def cli_line_lost(r):
    if not r.get("stdout") or r.get("exit") != 0:
        return None
    r["stdout"] = r["stdout"][1:]
    return r


def cli_underline(r):
    """the underline of a diagnostic one column to the right (as if another range had been labelled)"""
    if not r.get("plain") or r.get("exit") != 0 or r.get("mode") == "syntax":
        return None
    for k, line in enumerate(r.get("stdout") or []):
        if "^ " in line and k >= 4 and r["stdout"][k - 4].startswith("error: "):
            j = line.index("^")
            r["stdout"][k] = line[:j] + " " + line[j:]
            return r
    return None


def cli_column(r):
    """the column in the place line of a diagnostic one too large"""
    if not r.get("plain") or r.get("exit") != 0 or r.get("mode") == "syntax":
        return None
    for k, line in enumerate(r.get("stdout") or []):
        if " <in>:1:" in line and k >= 1 and r["stdout"][k - 1].startswith("error: "):
            a, b = line.rsplit(":", 1)
            if b.isdigit():
                r["stdout"][k] = a + ":" + str(int(b) + 1)
                return r
    return None


CORRUPTIONS = {
    "Trace_Lang": [("result value", lang_value), ("result sign", lang_sign), ("result unit", lang_unit),
                   ("one operator application", lang_app), ("error instead of value", lang_error)],
    "Trace_Parse": [("token length", parse_token_len), ("token kind", parse_token_kind), ("leaf length", parse_leaf),
                    ("leaf lost from the tree", parse_leaf_lost), ("node label", parse_label)],
    "Trace_Outcome": [("panic", outcome_panic), ("no result", outcome_no_result)],
    "Trace_Literal": [("value read", literal_value)],
    "Trace_Display": [("one digit", display_digit), ("last digit dropped", display_truncated)],
    "Trace_Words": [("power", words_power), ("prefix", words_prefix)],
    "Trace_Laws": [("one side", laws_side)],
    "Trace_Facts": [("not found", facts_not_found)],
    "Trace_Codec": [("identifier of a derived unit", codec_identifier), ("unit does not survive", codec_unit_lost),
                    ("compound after CBOR", codec_compound), ("rational after JSON", codec_rational),
                    ("constant re-encodes differently", codec_constant)],
    "Trace_Describe": [("description dropped", describe_drops), ("value", describe_value)],
    "Trace_Cli": [("digit on stdout", cli_stdout), ("line lost", cli_line_lost), ("underline of a diagnostic moved", cli_underline),
                  ("column of a diagnostic", cli_column)],
}

PER_KIND = 6


def corrupted(recs, module, clean_ids, distinct=False):
    """[(kind, record)] -- up to PER_KIND corrupted copies per kind, made from records the validator accepted;
    distinct: no record is used twice (validators that carry a history get the whole list back, corrupted in place)"""
    out = []
    used = set()
    for kind, fn in CORRUPTIONS.get(module, []):
        n = 0
        for r in recs:
            if r["id"] not in clean_ids or (distinct and r["id"] in used):
                continue
            c = fn(copy.deepcopy(r))
            if c is not None:
                out.append((kind, c))
                used.add(r["id"])
                n += 1
                if n >= PER_KIND:
                    break
    return out


class Quiet:
    """stands in for the Check while the corrupted records are validated: nothing of it reaches the evidence"""
    def __init__(self):
        import collections
        self.cov = collections.defaultdict(int)

    def model(self, *a, **k):
        pass

    def skipped(self, *a, **k):
        pass
