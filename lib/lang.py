"""Recording queries with the real library and validating the records against the reference
pipeline of the specification (Lexer -> Grammar -> Eval, spec/Trace_Lang.tla).

  record(strings)            -> path of an ndjson trace (one record per query)
  validate(chk, path, ...)   -> Result(mismatches, judged, decided): TLC re-evaluates every query and
                                every recorded operator application; the records are split into
                                chunks validated by several TLC processes side by side
"""
import re, json, os, random, concurrent.futures as cf
import vlib
from vlib import ToolError

IDS = os.path.join(vlib.ROOT, "vocab", "ids.json")


def unit_table():
    p = os.path.join(vlib.WORK, "unit_table.json")
    if not os.path.exists(p):
        import subprocess
        subprocess.run([os.path.join(vlib.ROOT, "bin", "gen_tables")], check=True, stdout=subprocess.DEVNULL)
    with open(p) as f:
        return json.load(f)


def record(strings, name, tokens=False, profile="release", extra=()):
    """run every string through the real library (hooks on); returns the trace path"""
    w = os.path.join(vlib.WORK, name)
    os.makedirs(w, exist_ok=True)
    inp = os.path.join(w, "in-%s.ndjson" % profile)
    out = os.path.join(w, "rec-%s.ndjson" % profile)
    with open(inp, "w") as f:
        for s in strings:
            f.write(json.dumps(s, ensure_ascii=False) + "\n")
    args = ["lang-trace", "--in", inp, "--out", out, "--ids", IDS] + (["--tokens"] if tokens else []) + list(extra)
    start = 0
    for attempt in range(6):
        pr = vlib.conform(args + ["--patience", 20] + (["--start", start] if start else []), profile=profile, timeout=3600)
        info = json.loads(pr.stdout.strip().splitlines()[-1])
        if not info.get("resume"):
            break
        start = info["resume"]      # a query never returned: it is recorded as such, the recorder continues behind it
    else:
        # six queries did not return: enough evidence, the rest of the inputs is not recorded
        vlib.log("[record] %s: giving up after 6 queries that did not return; %d of %d inputs recorded" % (name, start, len(strings)))
    return out


class Result:
    def __init__(self):
        self.mismatches = []     # {"id", "problems": [[kind, ...]], "rec": record}
        self.judged = 0
        self.decided = 0
        self.records = 0
        self.tlc = []


def write_cfg(path, consts, fac="UStdFacR", module_consts=()):
    with open(path, "w") as f:
        f.write("INIT Init\nNEXT Next\nCONSTANTS\n")
        for k, v in consts.items():
            f.write("  %s = %s\n" % (k, v))
        if fac:
            f.write("  Fac <- %s\n" % fac)
        for l in module_consts:
            f.write("  %s\n" % l)
        f.write("INVARIANT Done\nCHECK_DEADLOCK FALSE\n")


PARSER_REPAIRED = {"StaleSkip": "FALSE", "ParenReusesSkip": "FALSE", "EatIgnoresSkip": "FALSE", "RelabelInsteadOfPop": "FALSE",
                   "TokensAreResults": "FALSE"}
DEFAULT_CONSTS = {"ZeroPowEarlyExit": "FALSE", "ZeroEntriesKept": "FALSE", "Temperature": "FALSE"}


_NUM = re.compile(r'(\d+\.?\d*|\.\d+)(?:[eE]([+-]?\d+))?')


def cheap(text):
    """A conservative static bound on the size of the numbers an evaluation of `text` can produce.  A query that has not
    returned within the recorder's patience is judged (as not terminating) only if this bound is small: exact arithmetic
    on numbers of hundreds of thousands of digits, or a power taken from a looked-up fact, is slow but does terminate,
    and the properties do not bound running time.
      every power operand must be a literal integer of at most two digits, or a parenthesised expression over such
      integers (bounded by the product of its literals + 1);  bound = (longest literal incl. exponent + 40 digits for a
      fact or unit factor) x product of all powers x (number of literals and words + 1)  <= 50 000 digits"""
    power = 1
    for m in re.finditer(r'(\^|\*\*)', text):
        rest = text[m.end():].lstrip(" \t")
        if rest.startswith("("):
            depth, j = 0, 0
            for j, c in enumerate(rest):
                depth += (c == "(") - (c == ")")
                if depth == 0:
                    break
            inner = rest[:j + 1]
            if re.search(r'[A-Za-z°.{}]', inner):
                return False
            b = 1
            for n in re.findall(r'\d+', inner):
                if len(n) > 2:
                    return False
                b *= int(n) + 1
            power *= max(1, b)
        else:
            mm = re.match(r'[+-]?\s*(\d+)(?![\d.eE])', rest)
            if not mm or len(mm.group(1)) > 2:
                return False
            power *= max(1, int(mm.group(1)))
        if power > 10 ** 6:
            return False
    longest, count = 1, 0
    for m in _NUM.finditer(text):
        count += 1
        e = abs(int(m.group(2))) if m.group(2) and len(m.group(2)) < 7 else (10 ** 6 if m.group(2) else 0)
        longest = max(longest, len(m.group(1)) + e)
    count += len(re.findall(r"[A-Za-z°']+", text))
    return (longest + 40) * power * (count + 1) <= 50000



_SELFTESTED = set()


def validate(chk, path, name, module="Trace_Lang", consts=None, fac="UStdFacR", observed=None, chunk=1200, jobs=12,
             env=None, label=None, timeout=3000, _selftest=True):
    recs = vlib.read_ndjson(path)
    history = chunk >= 10 ** 9      # the validator carries a history over the whole list
    res = Result()
    # numbers of more than ~40 000 digits cost TLC minutes each (Horner over the limbs): such records are beyond the
    # explored domain and are set aside (counted), not judged
    def limbs(r):
        n = 0
        for a in r.get("apps", []) if isinstance(r, dict) else []:
            for v in a.get("args", []) + [a.get("out", {})]:
                n += len(v.get("n", [])) + len(v.get("d", []))
        for v in (r.get("res", []) if isinstance(r.get("res"), list) else []):
            if isinstance(v, dict):
                n += len(v.get("n", [])) + len(v.get("d", []))
        return n
    # a query the recorder gave up on is judged (as not terminating) only if a static bound says it is cheap; slow exact
    # arithmetic on huge numbers does terminate, and no property bounds running time
    slow = [r for r in recs if isinstance(r, dict) and r.get("timeout") and not cheap(r.get("text", ""))]
    if slow:
        chk.skipped(len(slow))
        for r in slow[:5]:
            vlib.log("SLOW (not judged) %r: no result within the recorder's patience; numbers of this size are slow, not stuck" % r.get("text"))
        ids = {id(r) for r in slow}
        recs = [r for r in recs if id(r) not in ids]
    if module in ("Trace_Lang",):
        small = [r for r in recs if limbs(r) <= 10000]
        if len(small) < len(recs):
            chk.skipped(len(recs) - len(small))
            vlib.log("[validate] %s: %d records with numbers beyond 40 000 digits set aside" % (name, len(recs) - len(small)))
            recs = small
    res.records = len(recs)
    if not recs:
        return res
    w = os.path.join(vlib.WORK, name)
    os.makedirs(w, exist_ok=True)
    cfg = os.path.join(w, "%s.cfg" % module)
    if module in ("Trace_Parse", "Trace_Outcome"):
        write_cfg(cfg, dict(PARSER_REPAIRED, **(consts or {})), fac=None)
    elif module == "Trace_Cli":
        write_cfg(cfg, dict(consts or {}), fac=None, module_consts=("Names <- EnvNames", "Syms <- EnvSyms"))
    elif module in ("Trace_Display", "Trace_Facts", "Trace_Codec"):
        write_cfg(cfg, dict(consts or {}), fac=None)
    elif module == "Trace_Describe":
        write_cfg(cfg, dict(DEFAULT_CONSTS, **dict(PARSER_REPAIRED, **(consts or {}))), fac=fac)
    elif module in ("Trace_Laws", "Trace_Words"):
        write_cfg(cfg, dict({"ZeroEntriesKept": "FALSE"}, **(consts or {})), fac=fac)
    else:
        write_cfg(cfg, dict(DEFAULT_CONSTS, **(consts or {})), fac=fac)
    if len(recs) > chunk:      # balance the chunks over the parallel TLC processes
        nchunks = -(-len(recs) // chunk)
        nchunks = -(-nchunks // jobs) * jobs
        chunk = -(-len(recs) // nchunks)
    chunks = [recs[i:i + chunk] for i in range(0, len(recs), chunk)]
    by_id = {r["id"]: r for r in recs}

    def one(i):
        p = os.path.join(w, "chunk%d.ndjson" % i)
        vlib.write_ndjson(p, chunks[i])
        e = {"TRACE": p}
        if observed:
            e["OBSERVED"] = observed
        if env:
            e.update(env)
        return vlib.tlc(module, cfg, workers=1, env=e, timeout=timeout, xmx="3g", tags=("MISMATCH", "SUMMARY"))

    with cf.ThreadPoolExecutor(max_workers=jobs) as ex:
        outs = list(ex.map(one, range(len(chunks))))
    for i, t in enumerate(outs):
        if t.error or t.violated:
            raise ToolError("%s: trace validation of chunk %d failed to run: %s" % (name, i, (t.error or t.violated)[:1500]))
        summary = [v for tag, v in t.vecs if tag == "SUMMARY"]
        if not summary:
            raise ToolError("%s: chunk %d printed no SUMMARY:\n%s" % (name, i, t.out[-1500:]))
        if summary[0]["records"] != len(chunks[i]):
            raise ToolError("%s: chunk %d: TLC read %d of %d records" % (name, i, summary[0]["records"], len(chunks[i])))
        res.judged += summary[0]["judged"]
        res.decided += summary[0]["decided"]
        for tag, v in t.vecs:
            if tag == "MISMATCH":
                res.mismatches.append({"id": v["id"], "problems": v["problems"], "rec": by_id.get(v["id"]), "extra": v})
        chk.model("%s(%s chunk %d: %d records)" % (module, label or name, i, len(chunks[i])), t, "trace validation")
    chk.cov["traces_validated_against_impl"] += res.records
    if _selftest and (module, str(consts)) not in _SELFTESTED:
        binding_selftest(chk, recs, res, name, module, history,
                         dict(module=module, consts=consts, fac=fac, observed=observed, chunk=chunk, jobs=jobs, env=env, timeout=timeout))
    return res


def binding_selftest(chk, recs, res, name, module, history, kw):
    """corrupt a few of the records just accepted and require the same validator to reject them (lib/selftest.py)"""
    import selftest
    bad_ids = {m["id"] for m in res.mismatches}
    clean = {r["id"] for r in recs} - bad_ids
    cor = selftest.corrupted(recs, module, clean, distinct=history)
    if not cor:
        return
    if history:
        by = {c["id"]: c for _, c in cor}
        rows = [by.get(r["id"], r) for r in recs]
    else:
        rows = []
        for k, (_, c) in enumerate(cor):
            c["id"] = 1000000000 + k
            rows.append(c)
    p = os.path.join(vlib.WORK, name, "selftest.ndjson")
    vlib.write_ndjson(p, rows)
    r2 = validate(selftest.Quiet(), p, name + "-selftest", label="binding self-test", _selftest=False, **kw)
    rejected = {m["id"] for m in r2.mismatches} - bad_ids
    # a validator with a history may notice the corrupted record at a later record about the same query
    texts = {m["rec"].get("text") for m in r2.mismatches if m["id"] in rejected and m.get("rec")} if history else set()
    report = {}
    for kind, c in cor:
        a = report.setdefault(kind, [0, 0])
        a[1] += 1
        a[0] += c["id"] in rejected or (history and c.get("text") is not None and c.get("text") in texts)
    vlib.log("[selftest] %s: %s" % (module, ", ".join("%s %d/%d rejected" % (k, a, b) for k, (a, b) in report.items())))
    chk.cov.setdefault("binding_selftest", {})
    st = chk.cov["binding_selftest"].setdefault(module, {})
    for kind, (a, b) in report.items():
        st[kind] = "%d of %d corrupted records rejected" % (a, b)
    dead = [k for k, (a, b) in report.items() if a == 0]
    if dead:
        raise ToolError("binding self-test: %s accepted every record corrupted in: %s (see %s)" % (module, ", ".join(dead), p))
    _SELFTESTED.add((module, str(kw.get("consts"))))


def show(rec):
    """compact rendering of a record's outcome for replay files"""
    out = []
    for r in rec.get("res", []):
        if r["k"] == "val":
            out.append({"n": ("-" if r["neg"] else "") + "".join("%04d" % x for x in r["n"]).lstrip("0") or "0",
                        "d": "".join("%04d" % x for x in r["d"]).lstrip("0") or "0", "u": r["u"]})
        else:
            out.append({"err": r.get("msg")})
    return out


def limbs_to_int(ls):
    v = 0
    for x in ls:
        v = v * 10000 + x
    return v


# ------------------------------------------------------------------ literal / expression generators
def rand_literal(rnd, maxdigits=6, allow_exp=True, allow_neg=True, big=False):
    nd = rnd.randint(1, maxdigits)
    if big:
        nd = rnd.randint(maxdigits // 2, maxdigits)
    ip = "".join(rnd.choice("0123456789") for _ in range(nd))
    s = ip
    form = rnd.random()
    if form < 0.35:
        fp = "".join(rnd.choice("0123456789") for _ in range(rnd.randint(1, max(1, maxdigits // 2))))
        s = ip + "." + fp
    elif form < 0.42:
        s = "." + ip
    elif form < 0.47:
        s = ip + "."
    if allow_exp and rnd.random() < 0.2:
        s += rnd.choice("eE") + rnd.choice(["", "+", "-"]) + str(rnd.randint(0, 12))
    if allow_neg and rnd.random() < 0.25:
        s = "-" + s
    elif rnd.random() < 0.04:
        s = "+" + s
    return s


def mc_cfg(path, spec="Spec", consts=None, invariants=(), properties=(), extra="", fac="UStdFacR", subst=()):
    with open(path, "w") as f:
        f.write("SPECIFICATION %s\nCONSTANTS\n" % spec)
        for k, v in (consts or {}).items():
            f.write("  %s = %s\n" % (k, v))
        if fac:
            f.write("  Fac <- %s\n" % fac)
        for l in subst:
            f.write("  %s\n" % l)
        for i in invariants:
            f.write("INVARIANT %s\n" % i)
        for p in properties:
            f.write("PROPERTY %s\n" % p)
        f.write("CHECK_DEADLOCK FALSE\n" + extra)
    return path


def problems_text(m):
    return "; ".join(" ".join(str(x) for x in p) for p in m["problems"])


def judge(chk, res, owns, what, key_prefix="", drift_other=True):
    """res: Result of validate().  owns(problem, record) -> True if that kind of mismatch on this
    record contradicts the property's statement; anything else is DRIFT.  The record carries all
    problems of the same query as rec["_problems"]."""
    n = 0
    for m in res.mismatches:
        rec = dict(m["rec"] or {})
        rec["_problems"] = m["problems"]
        mine = [p for p in m["problems"] if owns(p, rec)]
        other = [p for p in m["problems"] if not owns(p, rec)]
        if mine:
            n += 1
            chk.violation("%s%s: %s" % (key_prefix, rec.get("text"), "; ".join(" ".join(str(x) for x in p) for p in mine)),
                          {"kind": "query", "text": rec.get("text"), "what": what, "spec_disagrees_on": mine,
                           "observed": show(rec), "panic": rec.get("panic", "")})
        if other and drift_other:
            chk.drift("%r: %s" % (rec.get("text"), "; ".join(" ".join(str(x) for x in p) for p in other)))
    return n


# ------------------------------------------------------------------ numeric expressions
def gen_numeric(rnd, depth, maxdigits=6, big=False, allow_dz=True, budget=400, maxops=14):
    """a random well-formed numeric expression (string) over literals, %, parentheses, + - * / ^ with at
    most `maxops` operators whose intermediate results stay below roughly `budget` decimal digits
    (numerator + denominator)"""
    for _ in range(300):
        s, size, nops = _gen_numeric(rnd, depth, maxdigits, big, allow_dz)
        if size <= budget and nops <= maxops:
            return s
    return "1 + 1"


def _gen_numeric(rnd, depth, maxdigits, big, allow_dz):
    # every sub-expression comes with an upper bound on the digits of its numerator plus denominator
    count = [0]

    def lit():
        s = rand_literal(rnd, maxdigits=maxdigits, big=big and rnd.random() < 0.5)
        size = 2 * len(s) + 14
        if rnd.random() < 0.08:
            return s + ("%" if rnd.random() < 0.7 else " %"), size + 2
        return s, size

    def small_int():
        c = rnd.random()
        if allow_dz and c < 0.05:
            return "0", 0
        n = rnd.randint(1, 6) if rnd.random() < 0.85 else rnd.choice([7, 9, 10, 12, 14, 15, 20])
        if rnd.random() < 0.35:
            return "-%d" % n, n
        return str(n), n

    def expr(d):
        if d <= 0 or (d < depth and rnd.random() < 0.2):
            s, size = lit()
            return s, 100, size
        count[0] += 1
        op = rnd.choice(["+", "-", "*", "/", "^", "*", "/"])
        pr = {"+": 2, "-": 2, "*": 3, "/": 3, "^": 10}[op]
        # one deep side, one shallow side: depth without an exponential number of leaves
        dl, dr = (d - 1, rnd.randint(0, min(2, d - 1))) if rnd.random() < 0.5 else (rnd.randint(0, min(2, d - 1)), d - 1)
        l, lp, ls = expr(dl)
        if op == "^":
            if rnd.random() < 0.75:
                r, n = small_int()
                rp = 100
            else:      # a small integer computed by a sub-expression
                a, b = rnd.randint(0, 4), rnd.randint(0, 4)
                r, rp, n = "%d %s %d" % (a, rnd.choice(["+", "-"]), b), 2, 8
                count[0] += 1
            size = ls * max(1, n)
        else:
            r, rp, rs = expr(dr)
            size = ls + rs + 1
        if allow_dz and op == "/" and rnd.random() < 0.03:
            z = rand_literal(rnd, maxdigits=min(maxdigits, 12))
            r, rp = rnd.choice(["0", "0.0", "%s - %s" % (z, z), "0 * %s" % z, "0 ^ 2"]), 2
        if lp < pr or (rnd.random() < 0.15):
            l = par(l)
        if rp <= pr or (rnd.random() < 0.15):
            r = par(r)
        if op in "+-":
            sep = rnd.choice([" ", " ", "  ", "\t"])
            s = l + sep + op + rnd.choice([" ", " ", "  "]) + r
        else:
            o = "**" if op == "^" and rnd.random() < 0.2 else op
            a, b = rnd.choice(["", " ", " ", "  "]), rnd.choice(["", " ", " ", "  "])
            s = l + a + o + b + r
        return s, pr, size

    def par(s):
        a, b = rnd.choice(["", "", " "]), rnd.choice(["", "", " "])
        return "(" + a + s + b + ")"

    s, _, size = expr(depth)
    if rnd.random() < 0.1:
        s = rnd.choice([" ", "  ", "\t"]) + s
    if rnd.random() < 0.1:
        s = s + rnd.choice([" ", "  "])
    return s, size, count[0]


def repo_test_queries():
    """every string literal passed to query!/assert-style macros in /repo/tests (read at check time)"""
    import glob, re
    out = []
    for f in sorted(glob.glob(os.path.join(vlib.REPO, "tests", "**", "*.rs"), recursive=True)):
        src = open(f, encoding="utf-8").read()
        for m in re.finditer(r'(?:assert_)?query!\(\s*"((?:[^"\\]|\\.)*)"', src):
            out.append(m.group(1).encode().decode("unicode_escape") if "\\" in m.group(1) else m.group(1))
    return sorted(set(out))


# ------------------------------------------------------------------ the scales the tool itself exhibits
def observed_scales(name="observed"):
    """{unit key: {"n": limbs, "d": limbs}}: the value the tool prints for `1 <unit> to <SI base units>`;
    used as the scale source `Fac` by the checks of C03 / C04 / C13 so that a wrong unit definition is
    reported once (under C05) and not under every law it takes part in.  Returns (path of the JSON file, table)."""
    import ugen
    v = ugen.Vocab()
    rnd = random.Random(1)
    qs, keys = [], []
    for k, u in v.units.items():
        if k in v.offset:
            continue
        w, e = v.word_for(rnd, k, allow_prefix=False)
        if not w:
            continue
        base = " ".join("%s^%d" % (b, u["dims"][b]) for b in ugen.BASES if u["dims"].get(b, 0))
        qs.append("1 %s to %s" % (w, base))
        keys.append((k, e))
    path = record(qs, name)
    out = {}
    for (k, e), r in zip(keys, vlib.read_ndjson(path)):
        if len(r["res"]) == 1 and r["res"][0]["k"] == "val":
            x = r["res"][0]
            val = Fraction(limbs_to_int(x["n"]), limbs_to_int(x["d"])) / Fraction(10) ** e     # undo the name's own bias (gram)
            if x["neg"]:
                continue
            out[k] = {"n": vlib.digits(str(val.numerator)), "d": vlib.digits(str(val.denominator))}
    opath = os.path.join(vlib.WORK, name, "observed.json")
    with open(opath, "w") as f:
        json.dump(out, f)
    return opath, out


from fractions import Fraction


def quantity_trees(chk, name, k=2, layouts='"spaced1"'):
    """MC_Eval over quantities: every tree with <= k operators over + - * / ^ to and the leaves 2 m, 3 km, 5 s, 0.5 min, 7 N, 4;
    RenderParses / ParserRefines / ValueLayers are model-checked and every rendering is returned for replay"""
    w = vlib.workdir(name)
    consts = dict(PARSER_REPAIRED, K=k, KMin=0, LeafSet='"qty"', OpSet='"cast"', LayoutSet=layouts, Emit="TRUE", ZeroPowEarlyExit="FALSE",
                  ZeroEntriesKept="FALSE", Temperature="FALSE")
    cfg = mc_cfg(os.path.join(w, "qty.cfg"), consts=consts, invariants=["RenderParses", "ParserRefines", "ValueLayers", "EmitInv"])
    t = vlib.tlc("MC_Eval", cfg, workers=12, timeout=3000, xmx="12g")
    vlib.expect_holds(t, "MC_Eval over quantities")
    chk.model("MC_Eval quantities K=%d" % k, t, "every tree over quantity leaves: RenderParses, ParserRefines, ValueLayers; renderings emitted")
    return [v["src"] for tag, v in t.vecs]
