"""Shared driver plumbing for /verif/bin/check.

Every check (checks/<id>.py) uses this to
  * rebuild the conformance harness from /repo's working tree,
  * run TLC on a module of /verif/spec (model checking, vector emission, trace validation),
  * report violations (VIOLATION line + replay file), known findings and drift,
  * write /verif/evidence/<id>.json.
Exit status: 0 held, 1 violation (with VIOLATION line), 2 tool error / timeout / vacuity.
"""
import json, os, re, shutil, subprocess, sys, time, hashlib

sys.setrecursionlimit(20000)      # deeply nested syntax trees in recorded traces

ROOT = os.path.dirname(os.path.dirname(os.path.abspath(__file__)))
SPEC = os.path.join(ROOT, "spec")
HARNESS = os.path.join(ROOT, "harness")
WORK = os.path.join(ROOT, "work")
REPO = os.environ.get("VERIF_REPO", "/repo")
JAR = "/opt/veriftools/tla/tla2tools.jar:/opt/veriftools/tla/CommunityModules-deps.jar"
NCPU = os.cpu_count() or 4


class ToolError(Exception):
    pass


def log(*a):
    print(*a, file=sys.stderr, flush=True)


def workdir(name):
    d = os.path.join(WORK, name)
    shutil.rmtree(d, ignore_errors=True)
    os.makedirs(d, exist_ok=True)
    return d


# --------------------------------------------------------------------------- harness
_built = set()


def build_harness(profile="release"):
    """cargo build of the harness (path dependency on /repo => always the working tree)."""
    if profile in _built:
        return
    lock = os.path.join(HARNESS, "Cargo.lock")
    if not os.path.exists(lock):
        shutil.copy(os.path.join(REPO, "Cargo.lock"), lock)
    env = dict(os.environ, CARGO_NET_OFFLINE="true")
    t0 = time.time()
    cmd = ["cargo", "build", "--offline", "--profile", profile]
    p = subprocess.run(cmd, cwd=HARNESS, env=env, stdout=subprocess.PIPE, stderr=subprocess.STDOUT, text=True)
    if p.returncode != 0:
        log(p.stdout[-6000:])
        raise ToolError("harness build failed (profile %s): /repo does not compile with the hooks on" % profile)
    log("[build] harness profile=%s %.1fs" % (profile, time.time() - t0))
    _built.add(profile)


def conform_bin(profile="release", name="conform"):
    return os.path.join(HARNESS, "target", profile, name)


def conform(args, profile="release", timeout=3600, env=None, check=True, stdin=None):
    build_harness(profile)
    e = dict(os.environ)
    e.pop("ANYTHING_VERIF_CRASH", None)
    e.pop("ANYTHING_VERIF_TRACE", None)
    if env:
        e.update(env)
    t0 = time.time()
    try:
        p = subprocess.run([conform_bin(profile)] + [str(a) for a in args], env=e, stdout=subprocess.PIPE,
                           stderr=subprocess.PIPE, text=True, timeout=timeout, input=stdin)
    except subprocess.TimeoutExpired:
        raise ToolError("conform %s timed out after %ss" % (args[0], timeout))
    if check and p.returncode != 0:
        log(p.stdout[-3000:])
        log(p.stderr[-3000:])
        raise ToolError("conform %s exited with %s" % (args[0], p.returncode))
    log("[conform] %s %.1fs" % (args[0], time.time() - t0))
    return p


# --------------------------------------------------------------------------- TLC
class Tlc:
    def __init__(self):
        self.generated = 0
        self.distinct = 0
        self.violated = None      # name of violated invariant / property
        self.error = None         # other error text
        self.printed = []         # values printed with PrintT as raw lines
        self.vecs = []            # decoded JSON payloads of <<"TAG", "json">> prints
        self.out = ""
        self.wall = 0.0
        self.coverage = {}

    @property
    def ok(self):
        return self.violated is None and self.error is None


_tag = re.compile(r'^<<"([A-Z_]+)", (.*)>>$')


def _unescape(s):
    # TLC prints strings with \" and \\ escapes
    out = []
    i = 0
    while i < len(s):
        c = s[i]
        if c == "\\" and i + 1 < len(s):
            n = s[i + 1]
            out.append({"n": "\n", "t": "\t"}.get(n, n))
            i += 2
        else:
            out.append(c)
            i += 1
    return "".join(out)


def apalache(module, init, inv, length, cinit="ConstInit", timeout=900):
    """`apalache-mc check` on spec/<module>.tla; returns (outcome, wall, tail of the output): outcome is "ok" (no error up to
    `length`), "error" (a counterexample), anything else is a tool error"""
    out_dir = workdir("apalache-%s-%s-%s-%d" % (module, init, inv, length))
    e = dict(os.environ)
    e.pop("JAVA_TOOL_OPTIONS", None)
    e["JVM_ARGS"] = "-Xmx4g"
    e["TMPDIR"] = out_dir          # (the launcher makes its SANY scratch directory there; removed with out_dir)
    cmd = ["apalache-mc", "check", "--cinit=" + cinit, "--init=" + init, "--inv=" + inv, "--length=%d" % length,
           "--out-dir=" + out_dir, "--run-dir=" + os.path.join(out_dir, "run"), module + ".tla"]
    t0 = time.time()
    try:
        p = subprocess.run(cmd, cwd=SPEC, env=e, stdout=subprocess.PIPE, stderr=subprocess.STDOUT, text=True, timeout=timeout)
    except subprocess.TimeoutExpired:
        shutil.rmtree(out_dir, ignore_errors=True)
        raise ToolError("apalache %s %s/%s timed out after %ss" % (module, init, inv, timeout))
    shutil.rmtree(out_dir, ignore_errors=True)
    wall = time.time() - t0
    tail = "\n".join(p.stdout.splitlines()[-12:])
    if "EXITCODE: OK" in p.stdout and "The outcome is: NoError" in p.stdout:
        outcome = "ok"
    elif re.search(r"EXITCODE: ERROR \(12\)", p.stdout) and "The outcome is: Error" in p.stdout:
        outcome = "error"
    else:
        raise ToolError("apalache %s %s/%s: unexpected outcome\n%s" % (module, init, inv, tail))
    log("[apalache] %s init=%s inv=%s length=%d cinit=%s: %s, %.1fs" % (module, init, inv, length, cinit, outcome, wall))
    return outcome, wall, tail


def tlc(module, cfg, workers=None, env=None, timeout=900, simulate=None, deque=False, xss="1g", xmx="8g",
        coverage=False, tags=("VEC",), keep_out=None, depth=None):
    """Run TLC on spec/<module>.tla with spec/<cfg>.  Returns a Tlc."""
    meta = workdir("tlc-" + module + "-" + hashlib.md5((cfg + str(time.time())).encode()).hexdigest()[:8])
    # (TLC's scratch directory goes into the run's own metadir, which is removed afterwards, not into /tmp)
    opts = "-Xss%s -Xmx%s -Djava.io.tmpdir=%s" % (xss, xmx, meta)
    if deque:
        opts += " -Dtlc2.tool.queue.IStateQueue=StateDeque"
    e = dict(os.environ)
    e.pop("JAVA_TOOL_OPTIONS", None)
    if env:
        e.update({k: str(v) for k, v in env.items()})
    cmd = ["java", "-XX:+UseParallelGC"] + opts.split() + ["-cp", JAR, "tlc2.TLC",
           "-workers", str(workers or min(12, NCPU)), "-config", cfg, "-metadir", meta, "-cleanup", "-noGenerateSpecTE"]
    if coverage:
        cmd += ["-coverage", "1"]
    if simulate:
        cmd += ["-simulate", simulate]
    if depth:
        cmd += ["-depth", str(depth)]
    cmd += [module + ".tla"]
    t0 = time.time()
    r = Tlc()
    try:
        p = subprocess.run(cmd, cwd=SPEC, env=e, stdout=subprocess.PIPE, stderr=subprocess.STDOUT, text=True,
                           timeout=timeout)
        out = p.stdout
    except subprocess.TimeoutExpired as ex:
        shutil.rmtree(meta, ignore_errors=True)
        if simulate:
            out = (ex.stdout or b"").decode() if isinstance(ex.stdout, bytes) else (ex.stdout or "")
            p = None
        else:
            raise ToolError("TLC %s/%s timed out after %ss" % (module, cfg, timeout))
    shutil.rmtree(meta, ignore_errors=True)
    r.wall = time.time() - t0
    r.out = out
    if keep_out:
        with open(keep_out, "w") as f:
            f.write(out)
    for line in out.splitlines():
        m = _tag.match(line)
        if m:
            tag, rest = m.group(1), m.group(2)
            if tag in tags and rest.startswith('"') and rest.endswith('"'):
                try:
                    r.vecs.append((tag, json.loads(_unescape(rest[1:-1]))))
                    continue
                except Exception:
                    pass
            r.printed.append(line)
            continue
        m = re.match(r"^(\d+) states generated, (\d+) distinct states found", line)
        if m:
            r.generated, r.distinct = int(m.group(1)), int(m.group(2))
        m = re.match(r"^Error: Invariant (\S+) is violated", line)
        if m and r.violated is None:
            r.violated = m.group(1)
        m = re.match(r"^Error: Action property (\S+) is violated", line)
        if m and r.violated is None:
            r.violated = m.group(1)
        if line.startswith("Error: Temporal properties were violated") and r.violated is None:
            r.violated = "temporal"
        if line.startswith("Error: Deadlock reached") and r.violated is None:
            r.violated = "deadlock"
        if line.startswith("Error:") and r.violated is None and r.error is None and "behavior up to this point" not in line:
            r.error = line
        m = re.match(r"^<(\w+) line \d+, col \d+ to line \d+, col \d+ of module \w+>: (\d+):(\d+)", line)
        if m:
            r.coverage[m.group(1)] = r.coverage.get(m.group(1), 0) + int(m.group(3))
    if r.error and r.violated is None:
        # collect a few following lines for context
        idx = out.find(r.error)
        r.error = out[idx:idx + 1500]
    if simulate is None and r.generated == 0 and r.error is None and r.violated is None:
        r.error = "TLC produced no state count:\n" + out[-2000:]
    log("[tlc] %s %s: %d generated, %d distinct, %.1fs%s" % (module, cfg, r.generated, r.distinct, r.wall,
        (" VIOLATED " + r.violated) if r.violated else (" ERROR" if r.error else "")))
    return r


def expect_holds(t, what):
    """A model-checking run of the *specification* must hold; anything else is a tool error
    (the design is wrong or the model is broken) -- it says nothing about the code."""
    if t.error:
        raise ToolError("%s: TLC error: %s" % (what, t.error[:1500]))
    if t.violated:
        raise ToolError("%s: specification property %s violated in the model" % (what, t.violated))


# --------------------------------------------------------------------------- check context
class Check:
    def __init__(self, pid, tier, level, replay_dir=None):
        self.pid = pid
        self.tier = tier
        self.level = level
        self.seed = int(os.environ.get("VERIF_SEED", "20260928"))
        self.t0 = time.time()
        self.cov = {"evaluations": 0, "distinct_nontrivial": 0, "rule": "", "samples": [], "states": 0,
                    "transitions": 0, "traces_validated_against_impl": 0, "exhaustive": False, "drift": 0,
                    "skipped_out_of_domain": 0, "models": [], "known_findings_seen": 0}
        self.assumptions = []
        self.violations = 0
        self.scratch = bool(os.environ.get("VERIF_NO_EVIDENCE"))     # used when trying seeded changes
        self.replay_dir = os.path.join(WORK, "replays-scratch", pid) if self.scratch else os.path.join(ROOT, "replays", pid)
        self._nontrivial = set()
        self.known = load_known()
        self._known_printed = set()
        self.notes = []

    # -- accounting
    def model(self, name, t, note=""):
        self.cov["states"] += t.distinct
        self.cov["transitions"] += t.generated
        self.cov["models"].append({"cfg": name, "distinct": t.distinct, "generated": t.generated,
                                   "wall_s": round(t.wall, 1), "note": note})

    def evals(self, n=1):
        self.cov["evaluations"] += n

    def nontrivial(self, key):
        self._nontrivial.add(key if isinstance(key, str) else json.dumps(key, sort_keys=True))

    def sample(self, s, cap=8):
        if len(self.cov["samples"]) < cap:
            self.cov["samples"].append(s)

    def drift(self, what, cap=20):
        self.cov["drift"] += 1
        if self.cov["drift"] <= cap:
            log("DRIFT property=%s %s" % (self.pid, what))

    def skipped(self, n=1):
        self.cov["skipped_out_of_domain"] += n

    # -- verdicts
    def violation(self, key, replay):
        """key: stable identification of the failing case (matched against known findings);
        replay: JSON-serialisable object sufficient to re-run the case."""
        for k in self.known.get("findings", []):
            if k.get("property") == self.pid and re.fullmatch(k.get("match", re.escape(k.get("key", ""))), key):
                self.cov["known_findings_seen"] += 1
                if k["key"] not in self._known_printed:
                    self._known_printed.add(k["key"])
                    print("KNOWN-FINDING: property=%s %s" % (self.pid, k.get("what", k["key"])), flush=True)
                return False
        self.violations += 1
        if self.violations <= 25:
            os.makedirs(self.replay_dir, exist_ok=True)
            name = re.sub(r"[^A-Za-z0-9_.-]+", "_", key)[:80] + "-" + hashlib.md5(key.encode()).hexdigest()[:8] + ".json"
            path = os.path.join(self.replay_dir, name)
            with open(path, "w") as f:
                json.dump({"property": self.pid, "key": key, "case": replay}, f, indent=1, ensure_ascii=False)
            print("VIOLATION property=%s replay=%s" % (self.pid, path), flush=True)
            log("  -> %s" % key)
        return True

    def finish(self):
        self.cov["distinct_nontrivial"] = len(self._nontrivial)
        ev = {"property_id": self.pid, "tier": self.tier, "seed": self.seed, "level": self.level,
              "coverage": self.cov, "assumptions": self.assumptions, "wall_s": round(time.time() - self.t0, 1),
              "violations": self.violations}
        if self.notes:
            ev["coverage"]["notes"] = self.notes
        evdir = os.path.join(WORK, "evidence-scratch") if self.scratch else os.path.join(ROOT, "evidence")
        os.makedirs(evdir, exist_ok=True)
        with open(os.path.join(evdir, self.pid + ".json"), "w") as f:
            json.dump(ev, f, indent=1, ensure_ascii=False)
        log("[%s] %s: evaluations=%d nontrivial=%d states=%d traces=%d drift=%d violations=%d wall=%.0fs" % (
            self.pid, self.tier, self.cov["evaluations"], self.cov["distinct_nontrivial"], self.cov["states"],
            self.cov["traces_validated_against_impl"], self.cov["drift"], self.violations, time.time() - self.t0))
        return 1 if self.violations else 0


def load_known():
    p = os.path.join(ROOT, "known_findings.json")
    if os.path.exists(p):
        with open(p) as f:
            return json.load(f)
    return {"findings": [], "fixed": []}


def write_ndjson(path, rows):
    with open(path, "w") as f:
        for r in rows:
            f.write(json.dumps(r, ensure_ascii=False) + "\n")


def read_ndjson(path):
    out = []
    with open(path) as f:
        for l in f:
            l = l.strip()
            if l:
                out.append(json.loads(l))
    return out


def digits(s):
    """decimal string -> list of base-10^4 limbs (most significant first) for TLC's Horner fold"""
    s = s.lstrip("-+") or "0"
    pad = (-len(s)) % 4
    s = "0" * pad + s
    return [int(s[i:i + 4]) for i in range(0, len(s), 4)]
