SPECIFICATION Spec
CONSTANT InvalidateFirst = TRUE
INVARIANT AnswersAsFresh
CHECK_DEADLOCK FALSE
