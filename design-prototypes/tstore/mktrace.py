import sys
# schedule of the crashrun: fresh start, exit, fault, start, crash, start, answers
def run(evs): return ['start'] + evs
full = ['read_meta','after_remove_index','after_create_index','delete_all','before_commit','after_commit','after_write_meta']
pinned = run(full) + [('answers', True), 'exit', 'fault_index_lost'] + run(['read_meta','after_remove_index','after_create_index']) + ['crash'] + run(['read_meta']) + [('answers', False)]
fixed  = run(full) + [('answers', True), 'exit', 'fault_index_lost'] + run(['read_meta','after_remove_index','after_create_index']) + ['crash'] + run(full) + [('answers', True)]
import json
for name, t in (('pinned', pinned), ('fixed', fixed)):
    with open(name + '.ndjson', 'w') as f:
        for e in t:
            if isinstance(e, tuple): f.write(json.dumps({'ev': e[0], 'fresh': e[1]}) + '\n')
            else: f.write(json.dumps({'ev': e, 'fresh': True}) + '\n')
