---- MODULE TraceStore ----
EXTENDS Store3, Json, IOUtils, TLCExt
Rec == ndJsonDeserialize(IOEnv.TRACE)
VARIABLE l
tvars == <<vars, l>>
Ev(name) == l <= Len(Rec) /\ Rec[l].ev = name /\ l' = l + 1
Silent(A) == A /\ l' = l
\* logged events, each bound to the spec action whose completion it reports
TStart       == Ev("start")   /\ Start
TReadMeta    == Ev("read_meta") /\ ReadMeta
TRemoved     == Ev("after_remove_index") /\ RemoveDir2
TCreated     == Ev("after_create_index") /\ CreateIndex
TDeleteAll   == Ev("delete_all") /\ DeleteAll
TBeforeCommit== Ev("before_commit") /\ AddDocs
TCommit      == Ev("after_commit") /\ Commit
TWriteMeta   == Ev("after_write_meta") /\ WriteMeta
TCrash       == Ev("crash") /\ Crash
TExit        == Ev("exit") /\ Exit
TFault       == Ev("fault_index_lost") /\ Fault /\ idx' = "Absent"
\* answers observed by the harness after a start that reached Ready
TAnswers     == Ev("answers") /\ pc = "ready" /\ (Rec[l].fresh <=> view = "New") /\ UNCHANGED vars
\* steps the hooks do not report
Internal == Silent(Decide) \/ Silent(TryOpen) \/ Silent(Invalidate) \/ Silent(RemoveDir) \/ Silent(CreateIndex0)
            \/ Silent(Reload) \/ Silent(TruncMeta)
TNext == TStart \/ TReadMeta \/ TRemoved \/ TCreated \/ TDeleteAll \/ TBeforeCommit \/ TCommit \/ TWriteMeta
         \/ TCrash \/ TExit \/ TFault \/ TAnswers \/ Internal
TInit == Init /\ meta = "Absent" /\ idx = "Absent" /\ l = 1
TSpec == TInit /\ [][TNext]_tvars
\* the trace is accepted iff some behaviour consumes every line; TLC reports the witness as a "violation" of NotDone
NotDone == l <= Len(Rec)
====
