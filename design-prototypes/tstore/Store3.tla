---- MODULE Store3 ----
EXTENDS Naturals, Sequences, FiniteSets, TLC
CONSTANTS InvalidateFirst   \* TRUE = repaired protocol: drop meta.json before touching the index directory
\* abstract contents of a committed tantivy index
\* "New" = exactly the shipped data, "Old" = some other data set, "Empty" = created but nothing committed
Contents == {"New", "Old", "Empty"}
MetaVals == {"Absent", "Garbage", "OtherVersion", "OtherHash", "Current"}
IdxVals  == {"Absent", "Garbage", "Partial"} \cup Contents
VARIABLES meta, idx,        \* the data directory (survives crashes)
          pc, rmeta, rebuild, staged, view,  \* one process (lost on crash)
          faults, crashes
vars == <<meta, idx, pc, rmeta, rebuild, staged, view, faults, crashes>>
MaxFaults == 1
MaxCrashes == 2
Consistent == {<<"Absent","Absent">>, <<"OtherVersion","Old">>, <<"OtherHash","Old">>, <<"Current","New">>}
Init == /\ \E c \in Consistent : meta = c[1] /\ idx = c[2]
        /\ pc = "stopped" /\ rmeta = "Absent" /\ rebuild = FALSE /\ staged = "none" /\ view = "none"
        /\ faults = 0 /\ crashes = 0
\* external damage while the tool is not running
Fault == /\ pc = "stopped" /\ faults' = faults
         /\ \/ meta' \in {"Absent", "Garbage"} /\ idx' = idx
            \/ idx' \in {"Absent", "Garbage"} /\ meta' = meta
         /\ UNCHANGED <<pc, rmeta, rebuild, staged, view, crashes>>
Start == /\ pc = "stopped" /\ pc' = "readmeta"
         /\ UNCHANGED <<meta, idx, rmeta, rebuild, staged, view, faults, crashes>>
ReadMeta == /\ pc = "readmeta"
            /\ rmeta' = IF meta \in {"Absent", "Garbage"} THEN "None" ELSE meta
            /\ pc' = "decide"
            /\ UNCHANGED <<meta, idx, rebuild, staged, view, faults, crashes>>
Decide == /\ pc = "decide"
          /\ rebuild' = (rmeta # "Current")
          /\ pc' = IF rmeta \in {"None", "OtherVersion"} THEN (IF InvalidateFirst THEN "invalidate" ELSE "removedir")
                   ELSE "tryopen"
          /\ UNCHANGED <<meta, idx, rmeta, staged, view, faults, crashes>>
TryOpen == /\ pc = "tryopen"
           /\ \/ /\ idx \in Contents \cup {"Partial"}       \* a half-removed / half-created directory may still open
                 /\ pc' = (IF rebuild THEN "deleteall" ELSE "ready") /\ view' = idx
              \/ /\ idx \notin Contents
                 /\ pc' = (IF InvalidateFirst THEN "invalidate" ELSE "removedir") /\ view' = view
           /\ UNCHANGED <<meta, idx, rmeta, rebuild, staged, faults, crashes>>
Invalidate == /\ pc = "invalidate" /\ meta' = "Absent" /\ pc' = "removedir"
              /\ UNCHANGED <<idx, rmeta, rebuild, staged, view, faults, crashes>>
RemoveDir == /\ pc = "removedir" /\ idx' = (IF idx = "Absent" THEN "Absent" ELSE "Partial") /\ pc' = "removedir2"
             /\ UNCHANGED <<meta, rmeta, rebuild, staged, view, faults, crashes>>
RemoveDir2 == /\ pc = "removedir2" /\ idx' = "Absent" /\ pc' = "createindex0"
             /\ UNCHANGED <<meta, rmeta, rebuild, staged, view, faults, crashes>>
CreateIndex0 == /\ pc = "createindex0" /\ idx' = "Partial" /\ pc' = "createindex"
             /\ UNCHANGED <<meta, rmeta, rebuild, staged, view, faults, crashes>>
CreateIndex == /\ pc = "createindex" /\ idx' = "Empty" /\ rebuild' = TRUE /\ pc' = "deleteall"
               /\ UNCHANGED <<meta, rmeta, staged, view, faults, crashes>>
DeleteAll == /\ pc = "deleteall" /\ staged' = "deleted" /\ pc' = "adddocs"
             /\ UNCHANGED <<meta, idx, rmeta, rebuild, view, faults, crashes>>
AddDocs == /\ pc = "adddocs" /\ staged' = "all" /\ pc' = "commit"
           /\ UNCHANGED <<meta, idx, rmeta, rebuild, view, faults, crashes>>
Commit == /\ pc = "commit" /\ idx' = "New" /\ staged' = "none" /\ pc' = "reload"
          /\ UNCHANGED <<meta, rmeta, rebuild, view, faults, crashes>>
Reload == /\ pc = "reload" /\ view' = idx /\ pc' = "truncmeta"
          /\ UNCHANGED <<meta, idx, rmeta, rebuild, staged, faults, crashes>>
TruncMeta == /\ pc = "truncmeta" /\ meta' = "Garbage" /\ pc' = "writemeta"
             /\ UNCHANGED <<idx, rmeta, rebuild, staged, view, faults, crashes>>
WriteMeta == /\ pc = "writemeta" /\ meta' = "Current" /\ pc' = "ready"
             /\ UNCHANGED <<idx, rmeta, rebuild, staged, view, faults, crashes>>
Exit == /\ pc = "ready" /\ pc' = "stopped" /\ view' = "none" /\ staged' = "none"
        /\ UNCHANGED <<meta, idx, rmeta, rebuild, faults, crashes>>
Crash == /\ pc \notin {"stopped", "ready"} /\ crashes' = crashes
         /\ pc' = "stopped" /\ staged' = "none" /\ view' = "none"
         /\ UNCHANGED <<meta, idx, rmeta, rebuild, faults>>
Next == Fault \/ Start \/ ReadMeta \/ Decide \/ TryOpen \/ Invalidate \/ RemoveDir \/ RemoveDir2 \/ CreateIndex0 \/ CreateIndex
        \/ DeleteAll \/ AddDocs \/ Commit \/ Reload \/ TruncMeta \/ WriteMeta \/ Exit \/ Crash
Spec == Init /\ [][Next]_vars
\* C15
AnswersAsFresh == pc = "ready" => view = "New"
MetaNeverAhead == (meta = "Current" /\ faults = 0) => idx = "New"
====
