SPECIFICATION TSpec
CONSTANT InvalidateFirst = TRUE
INVARIANT NotDone
CHECK_DEADLOCK FALSE
