SPECIFICATION Spec
CONSTANT InvalidateFirst = TRUE
INVARIANT AnswersAsFresh
INVARIANT MetaNeverAhead
CHECK_DEADLOCK FALSE
