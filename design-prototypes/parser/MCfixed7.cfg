INIT Init
NEXT Next
INVARIANT Lossless
INVARIANT Refines
CHECK_DEADLOCK FALSE
CONSTANTS N = 7
 StaleSkip = FALSE
 ParenReusesSkip = FALSE
 EatIgnoresSkip = FALSE
 RelabelInsteadOfPop = FALSE
 TokensAreResults = FALSE
