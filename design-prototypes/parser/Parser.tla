---- MODULE Parser ----
EXTENDS Integers, Sequences, FiniteSets, TLC
CONSTANTS N,                     \* max token sequence length
          StaleSkip,             \* pinned: operation() returns the skip counted before its last operand
          ParenReusesSkip,       \* pinned: value() hands the already consumed skip to the nested operation()
          EatIgnoresSkip,        \* pinned: eat() matches at get(n) instead of get(skip+n)
          RelabelInsteadOfPop,   \* pinned: lower-priority operator re-labels the closed frame
          TokensAreResults       \* pinned: Query evaluates root-level tokens as if they were nodes

Kinds == {"NUM", "WS", "-", "/", "^", "(", ")"}
Prio(k) == CASE k = "-" -> 2 [] k = "/" -> 3 [] k = "^" -> 10 [] OTHER -> 0

\* ===================== declarative grammar over blank-free tokens: AST or "bad" =====================
\* ASTs: [t |-> "num", i |-> token index] and [t |-> "bin", op |-> k, l |-> ast, r |-> ast]
NoWSIdx(toks) == SelectSeq([i \in 1..Len(toks) |-> i], LAMBDA i : toks[i] # "WS")
RECURSIVE GExpr(_, _, _, _), GPrim(_, _, _), GClimb(_, _, _, _, _)
BadAst == [t |-> "bad"]
GBad(n) == [ok |-> FALSE, ast |-> BadAst, next |-> n]
GPrim(toks, ix, j) ==         \* ix: indexes of non-blank tokens; j: position in ix
  IF j > Len(ix) THEN GBad(j)
  ELSE IF toks[ix[j]] = "NUM" THEN [ok |-> TRUE, ast |-> [t |-> "num", i |-> ix[j]], next |-> j + 1]
  ELSE IF toks[ix[j]] = "(" THEN
       LET e == GExpr(toks, ix, j + 1, 1) IN
       IF e.ok /\ e.next <= Len(ix) /\ toks[ix[e.next]] = ")" THEN [e EXCEPT !.next = e.next + 1] ELSE GBad(e.next)
  ELSE GBad(j)
GClimb(toks, ix, lhs, j, minp) ==
  IF ~lhs.ok \/ j > Len(ix) \/ Prio(toks[ix[j]]) = 0 \/ Prio(toks[ix[j]]) < minp THEN [lhs EXCEPT !.next = j]
  ELSE LET op == toks[ix[j]]
           rhs == GExpr(toks, ix, j + 1, Prio(op) + 1) IN
       IF ~rhs.ok THEN rhs
       ELSE GClimb(toks, ix, [ok |-> TRUE, ast |-> [t |-> "bin", op |-> op, l |-> lhs.ast, r |-> rhs.ast], next |-> rhs.next], rhs.next, minp)
GExpr(toks, ix, j, minp) == LET p == GPrim(toks, ix, j) IN GClimb(toks, ix, p, p.next, minp)
Grammar(toks) == LET ix == NoWSIdx(toks)
                     e == GExpr(toks, ix, 1, 1) IN
                 IF e.ok /\ e.next = Len(ix) + 1 THEN e.ast ELSE BadAst

\* ===================== operational parser: transcription of parser.rs / grammar.rs =====================
\* builder: root-level sibling list; Leaf = [k, i]; Node = [k, ch]
Leaf(k, i) == [leaf |-> TRUE, k |-> k, i |-> i, ch |-> <<>>]
Node(k, ch) == [leaf |-> FALSE, k |-> k, i |-> 0, ch |-> ch]
Get(toks, S, n) == IF S.pos + n + 1 <= Len(toks) THEN toks[S.pos + n + 1] ELSE "EOF"
RECURSIVE CountSkipFrom(_, _, _)
CountSkipFrom(toks, S, n) == IF Get(toks, S, n) = "WS" THEN CountSkipFrom(toks, S, n + 1) ELSE n
CountSkip(toks, S) == CountSkipFrom(toks, S, 0)
Bump(toks, S) == IF Get(toks, S, 0) = "EOF" THEN S
                 ELSE [pos |-> S.pos + 1, sib |-> Append(S.sib, Leaf(toks[S.pos + 1], S.pos + 1))]
RECURSIVE BumpN(_, _, _)
BumpN(toks, S, k) == IF k = 0 THEN S ELSE BumpN(toks, Bump(toks, S), k - 1)
BumpNode(toks, S, K) == IF Get(toks, S, 0) = "EOF" THEN [S EXCEPT !.sib = Append(@, Node(K, <<>>))]
                        ELSE [pos |-> S.pos + 1, sib |-> Append(S.sib, Node(K, <<Leaf(toks[S.pos + 1], S.pos + 1)>>))]
Checkpoint(S) == Len(S.sib) + 1
CloseAt(S, c, K) == [S EXCEPT !.sib = SubSeq(S.sib, 1, c - 1) \o <<Node(K, SubSeq(S.sib, c, Len(S.sib)))>>]
\* eat(skip, <<kind>>) for a single expected kind
Eat(toks, S, skip, k) ==
  LET at == IF EatIgnoresSkip THEN 0 ELSE skip IN
  IF Get(toks, S, at) = k THEN [ok |-> TRUE, S |-> BumpN(toks, S, skip + 1)] ELSE [ok |-> FALSE, S |-> S]

\* unit(p, skip) restricted to what numeric expressions can reach: a NUMBER lead glues on as a "unit"
RECURSIVE UnitTrail(_, _)
UnitTrail(toks, S) ==     \* trailing no-skip symbols; returns [S, skip, more]
  LET k == Get(toks, S, 0) IN
  IF k = "NUM" THEN UnitTrail(toks, BumpNode(toks, S, "NUMBER"))
  ELSE IF k = "/" THEN UnitTrail(toks, BumpNode(toks, S, "OP_DIV"))
  ELSE IF k = "^" THEN UnitTrail(toks, BumpNode(toks, S, "OP_POWER"))
  ELSE IF k = "WS" THEN [S |-> S, skip |-> 1, more |-> TRUE]
  ELSE [S |-> S, skip |-> 0, more |-> FALSE]
RECURSIVE UnitLoop(_, _, _, _)
UnitLoop(toks, S, skip, c) ==
  IF Get(toks, S, skip) # "NUM" THEN [S |-> S, c |-> c]
  ELSE LET S1 == BumpN(toks, S, skip)
           c1 == IF c = 0 THEN Checkpoint(S1) ELSE c
           tr == UnitTrail(toks, BumpNode(toks, S1, "NUMBER")) IN
       IF tr.more THEN UnitLoop(toks, tr.S, tr.skip, c1) ELSE [S |-> tr.S, c |-> c1]
Unit(toks, S, skip) == LET u == UnitLoop(toks, S, skip, 0) IN
                       IF u.c # 0 THEN [some |-> TRUE, S |-> CloseAt(u.S, u.c, "UNIT")] ELSE [some |-> FALSE, S |-> u.S]

RECURSIVE Operation(_, _, _), Value(_, _, _), OpLoop(_, _, _, _, _, _), Unwind(_, _, _, _, _), PopAll(_, _)
None(S) == [some |-> FALSE, S |-> S, skip |-> 0, c |-> 0]
Value(toks, S, skip) ==
  LET k == Get(toks, S, skip) IN
  IF k = "NUM" THEN
     LET S1 == BumpN(toks, S, skip)
         c  == Checkpoint(S1)
         S2 == Bump(toks, S1)
         u  == Unit(toks, S2, CountSkip(toks, S2)) IN
     [some |-> TRUE, S |-> CloseAt(u.S, c, IF u.some THEN "WITH_UNIT" ELSE "NUMBER"), skip |-> 0, c |-> c]
  ELSE IF k = "(" THEN
     LET S1 == BumpN(toks, S, skip)
         c  == Checkpoint(S1)
         S2 == Bump(toks, S1)
         r  == Operation(toks, S2, IF ParenReusesSkip THEN skip ELSE CountSkip(toks, S2)) IN
     IF ~r.some THEN None(r.S)
     ELSE LET e == Eat(toks, r.S, r.skip, ")") IN
          IF e.ok THEN [some |-> TRUE, S |-> e.S, skip |-> 0, c |-> c] ELSE None(e.S)
  ELSE None(S)
\* frames: [c, p]
\* handle a new operator of priority p against the stack; cur = checkpoint of the operand just parsed
Unwind(S, stack, p, cur, closed) ==
  IF stack = <<>> THEN [S |-> S, stack |-> <<[c |-> IF closed = 0 THEN cur ELSE closed, p |-> p]>>]
  ELSE LET top == stack[Len(stack)] IN
    IF p < top.p THEN
       IF RelabelInsteadOfPop
       THEN [S |-> CloseAt(S, top.c, "OPERATION"), stack |-> [stack EXCEPT ![Len(stack)] = [c |-> top.c, p |-> p]]]
       ELSE Unwind(CloseAt(S, top.c, "OPERATION"), SubSeq(stack, 1, Len(stack) - 1), p, cur, top.c)
    ELSE IF p > top.p THEN [S |-> S, stack |-> Append(stack, [c |-> IF closed = 0 THEN cur ELSE closed, p |-> p])]
    ELSE [S |-> S, stack |-> stack]
PopAll(S, stack) == IF stack = <<>> THEN S
                    ELSE PopAll(CloseAt(S, stack[Len(stack)].c, "OPERATION"), SubSeq(stack, 1, Len(stack) - 1))
OpLoop(toks, S, skip, open, stack, first) ==
  LET v == Value(toks, S, skip) IN
  IF ~v.some THEN None(v.S)
  ELSE LET sk == CountSkip(toks, v.S)
           k  == Get(toks, v.S, sk) IN
       IF Prio(k) = 0
       THEN [some |-> TRUE, S |-> PopAll(v.S, stack), skip |-> IF StaleSkip THEN skip ELSE sk, c |-> open]
       ELSE LET st0 == IF first THEN <<[c |-> open, p |-> Prio(k)]>> ELSE stack
                u   == Unwind(v.S, st0, Prio(k), v.c, 0)
                S1  == BumpNode(toks, BumpN(toks, u.S, sk), IF k = "-" THEN "OP_SUB" ELSE IF k = "/" THEN "OP_DIV" ELSE "OP_POWER") IN
            OpLoop(toks, S1, CountSkip(toks, S1), open, u.stack, FALSE)
Operation(toks, S, skip) == OpLoop(toks, S, skip, Checkpoint(S), <<>>, TRUE)

RECURSIVE RootLoop(_, _, _, _, _, _)
RootLoop(toks, S, skip, c, error, fuel) ==
  LET k == Get(toks, S, skip) IN
  IF fuel = 0 THEN [S |-> S, error |-> TRUE, stuck |-> TRUE]
  ELSE IF k = "EOF" THEN [S |-> BumpN(toks, S, skip), error |-> error, stuck |-> FALSE]
  ELSE IF k \in {"(", "NUM"} THEN
       LET r == Operation(toks, S, skip) IN
       IF r.some THEN RootLoop(toks, r.S, r.skip, c, error, fuel - 1)
       ELSE RootLoop(toks, CloseAt(r.S, c, "ERROR"), skip, c, error, fuel - 1)
  ELSE LET S1 == Bump(toks, BumpN(toks, S, skip)) IN RootLoop(toks, S1, CountSkip(toks, S1), c, TRUE, fuel - 1)
ParseRoot(toks) ==
  LET S0 == [pos |-> 0, sib |-> <<>>]
      r  == RootLoop(toks, S0, CountSkip(toks, S0), 1, FALSE, 3 * Len(toks) + 3) IN
  [sib |-> IF r.error THEN <<Node("ERROR", r.S.sib)>> ELSE r.S.sib, pos |-> r.S.pos, stuck |-> r.stuck]

\* ===================== evaluation of the tree the way eval.rs walks it: tree -> AST =====================
NodesOf(ch) == SelectSeq(ch, LAMBDA x : ~x.leaf)
RECURSIVE Ast(_), Fold(_, _, _)
OpOf(k) == CASE k = "OP_SUB" -> "-" [] k = "OP_DIV" -> "/" [] k = "OP_POWER" -> "^" [] OTHER -> "?"
Fold(base, ns, j) == IF j + 1 > Len(ns) THEN base
                     ELSE IF OpOf(ns[j].k) = "?" THEN BadAst
                     ELSE LET r == Ast(ns[j + 1]) IN
                          IF base.t = "bad" \/ r.t = "bad" THEN BadAst
                          ELSE Fold([t |-> "bin", op |-> OpOf(ns[j].k), l |-> base, r |-> r], ns, j + 2)
Ast(x) == IF x.leaf THEN BadAst
          ELSE IF x.k = "NUMBER" THEN (IF Len(x.ch) = 1 /\ x.ch[1].leaf THEN [t |-> "num", i |-> x.ch[1].i] ELSE BadAst)
          ELSE IF x.k = "OPERATION" THEN LET ns == NodesOf(x.ch) IN
               IF ns = <<>> THEN BadAst ELSE Fold(Ast(ns[1]), ns, 2)
          ELSE BadAst
Results(sib) == LET xs == IF TokensAreResults THEN sib ELSE NodesOf(sib) IN [j \in 1..Len(xs) |-> Ast(xs[j])]

\* leaves in order
RECURSIVE Leaves(_), LeavesSeq(_, _)
LeavesSeq(ch, j) == IF j > Len(ch) THEN <<>> ELSE Leaves(ch[j]) \o LeavesSeq(ch, j + 1)
Leaves(x) == IF x.leaf THEN <<x.i>> ELSE LeavesSeq(x.ch, 1)

\* ===================== model =====================
Lexable(toks) == /\ \A i \in 1..(Len(toks) - 1) : ~(toks[i] = "WS" /\ toks[i + 1] = "WS")
                 /\ \A i \in 1..(Len(toks) - 1) : ~(toks[i] = "-" /\ toks[i + 1] = "NUM")
VARIABLE toks
Init == toks \in UNION {[1..n -> Kinds] : n \in 1..N} /\ Lexable(toks)
Next == UNCHANGED toks
\* C12 (parser half): every token becomes exactly one leaf, in order, whatever the input
Lossless == LET p == ParseRoot(toks) IN ~p.stuck /\ LeavesSeq(p.sib, 1) = [i \in 1..Len(toks) |-> i]
\* C06: whenever the documented grammar reads the tokens as one expression, that is the single result
Refines == LET g == Grammar(toks) IN g.t # "bad" => Results(ParseRoot(toks).sib) = <<g>>
====
