INIT Init
NEXT Next
INVARIANT EmitInv

CHECK_DEADLOCK FALSE
CONSTANTS N = 6
 StaleSkip = FALSE
 ParenReusesSkip = FALSE
 EatIgnoresSkip = FALSE
 RelabelInsteadOfPop = FALSE
 TokensAreResults = FALSE
