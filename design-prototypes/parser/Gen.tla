---- MODULE Gen ----
EXTENDS Parser
CONSTANT K
Ops == {"-", "/", "^"}
RECURSIVE E(_)
Paren(S) == S \cup {<<"(">> \o e \o <<")">> : e \in S}
E(k) == IF k = 0 THEN {<<"NUM">>}
        ELSE E(k - 1) \cup UNION {{a \o <<op>> \o b : a \in Paren(E(i)), b \in Paren(E(k - 1 - i)), op \in Ops} : i \in 0..(k - 1)}
\* layouts
RECURSIVE Spaced(_, _), Tight(_, _), Airy(_, _)
Spaced(t, i) == IF i > Len(t) THEN <<>> ELSE (IF i > 1 THEN <<"WS", t[i]>> ELSE <<t[i]>>) \o Spaced(t, i + 1)
Tight(t, i) == IF i > Len(t) THEN <<>>
               ELSE (IF t[i] = "-" THEN <<"WS", "-", "WS">> ELSE <<t[i]>>) \o Tight(t, i + 1)
Airy(t, i) == IF i > Len(t) THEN <<"WS">>          \* blanks inside parentheses, leading and trailing
              ELSE (IF t[i] = "(" THEN <<"(", "WS">> ELSE IF t[i] = ")" THEN <<"WS", ")">>
                    ELSE IF t[i] = "-" THEN <<"WS", "-", "WS">> ELSE <<t[i]>>) \o Airy(t, i + 1)
Squash(t) == SelectSeq([i \in 1..Len(t) |-> IF i > 1 /\ t[i] = "WS" /\ t[i - 1] = "WS" THEN "DROP" ELSE t[i]], LAMBDA x : x # "DROP")
Layouts(t) == {Spaced(t, 1), Squash(Tight(t, 1)), Squash(<<"WS">> \o Airy(t, 1))}
VARIABLES e, lay
GInit == e \in E(K) /\ lay \in 1..3 /\ toks = <<>>
GNext == UNCHANGED <<e, lay, toks>>
Tok == LET L == <<Spaced(e, 1), Squash(Tight(e, 1)), Squash(<<"WS">> \o Airy(e, 1))>> IN L[lay]
GRefines == LET t == Tok
                g == Grammar(t) IN
            /\ g.t # "bad"
            /\ Results(ParseRoot(t).sib) = <<g>>
====
