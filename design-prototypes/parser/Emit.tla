---- MODULE Emit ----
EXTENDS Parser, Json
EmitInv == LET g == Grammar(toks) IN g.t # "bad" => PrintT(<<"VEC", ToJson([toks |-> toks, ast |-> g])>>)
====
