INIT GInit
NEXT GNext
INVARIANT GRefines
CHECK_DEADLOCK FALSE
CONSTANTS N = 1
 K = 4
 StaleSkip = FALSE
 ParenReusesSkip = FALSE
 EatIgnoresSkip = FALSE
 RelabelInsteadOfPop = FALSE
 TokensAreResults = FALSE
