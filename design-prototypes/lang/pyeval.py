import json,sys,re
from fractions import Fraction
def lit(t):
    pct = t.endswith('%'); t = t.rstrip('%')
    m = re.fullmatch(r'([+-]?)(\d*)(?:\.(\d*))?(?:[eE]([+-]?\d+))?', t)
    sg, ip, fp, ex = m.groups(); fp = fp or ''; ex = int(ex or 0)
    v = Fraction(int((ip+fp) or '0'), 10**len(fp)) * Fraction(10)**ex
    if sg == '-': v = -v
    return v/100 if pct else v
def ev(toks):
    # precedence climbing, left assoc; toks: list
    pos = 0
    def prim():
        nonlocal pos
        t = toks[pos]
        if t == '(':
            pos += 1; v = expr(1); assert toks[pos] == ')'; pos += 1; return v
        pos += 1; return lit(t)
    pr = {'+':2,'-':2,'*':3,'/':3,'^':10}
    def expr(minp):
        nonlocal pos
        l = prim()
        while pos < len(toks) and toks[pos] in pr and pr[toks[pos]] >= minp:
            op = toks[pos]; pos += 1; r = expr(pr[op]+1)
            if op == '+': l = l + r
            elif op == '-': l = l - r
            elif op == '*': l = l * r
            elif op == '/': l = l / r
            else:
                assert r.denominator == 1
                l = l ** int(r)
        return l
    return expr(1)
for i in map(int, sys.argv[2:]):
    e = json.loads(open(sys.argv[1]).read().split('\n')[i-1]); s = ''.join(e['src'])
    toks = re.findall(r'\(|\)|[+-]?(?:\d+\.?\d*|\.\d+)(?:[eE][+-]?\d+)?%?|[-+*/^]', s.replace(' ^ ', ' ^ '))
    # tokens separated by spaces in generator
    toks = [t for t in re.split(r'\s+|(?<=\()|(?=\))', s) if t]
    try: v = ev(toks)
    except ZeroDivisionError: v = 'DIVZERO'
    impl = 'ERR' if e['err'] else Fraction(int(''.join(map(str,e['numer']))) * (-1 if e['neg'] else 1), int(''.join(map(str,e['denom']))))
    print(i, 'agree' if v == impl else 'DIFFER', str(v)[:50], '|', str(impl)[:50])
