---- MODULE TraceLang ----
EXTENDS Lang, Json, IOUtils
Rec == ndJsonDeserialize(IOEnv.TRACE)
VARIABLE l, bad
Check(e) ==
  LET ts == NoWS(Lex(e.src, 1))
      v  == Expr(e.src, ts, 1, 1)
      full == v.ok /\ v.next = Len(ts) + 1
      rn == ResDigits(e.numer)
      rd == ResDigits(e.denom)
      sgn == IF e.neg THEN RSub(RInt(0), rn) ELSE rn
  IN IF e.err THEN ~full                       \* impl error  <=> spec rejects / div by zero
     ELSE full /\ \A k \in 1..NP : rd[k] = 0 \/ sgn[k] = (v.r[k] * rd[k]) % Primes[k]
Init == l = 1 /\ bad = 0
Next == /\ l <= Len(Rec) /\ l' = l + 1
        /\ LET ok == Check(Rec[l]) IN
             /\ bad' = IF ok THEN bad ELSE bad + 1
             /\ (ok \/ PrintT(<<"MISMATCH", l>>))
Accepted == TLCGet("stats").diameter - 1 = Len(Rec)
====
