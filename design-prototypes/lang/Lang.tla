---- MODULE Lang ----
EXTENDS Integers, Sequences, FiniteSets, TLC
\* ---------- residues ----------
Primes == <<32749, 32719, 32717, 32713>>
NP == 4
RECURSIVE PowMod(_, _, _)
PowMod(b, e, p) == IF e = 0 THEN 1
                   ELSE LET h == PowMod(b, e \div 2, p) IN
                        IF e % 2 = 0 THEN (h * h) % p ELSE (((h * h) % p) * b) % p
InvMod(a, p) == PowMod(a % p, p - 2, p)
\* residue vector of a digit sequence (most significant first)
RECURSIVE Horner(_, _, _, _)
Horner(ds, i, acc, p) == IF i > Len(ds) THEN acc ELSE Horner(ds, i + 1, (acc * 10 + ds[i]) % p, p)
ResDigits(ds) == [k \in 1..NP |-> Horner(ds, 1, 0, Primes[k])]
\* a value: [ok |-> BOOLEAN (defined), r |-> residues, blind |-> set of prime indexes]
RInt(n) == [k \in 1..NP |-> n % Primes[k]]
RAdd(a, b) == [k \in 1..NP |-> (a[k] + b[k]) % Primes[k]]
RSub(a, b) == [k \in 1..NP |-> (a[k] - b[k] + Primes[k]) % Primes[k]]
RMul(a, b) == [k \in 1..NP |-> (a[k] * b[k]) % Primes[k]]
RInv(a)    == [k \in 1..NP |-> InvMod(a[k], Primes[k])]
RDiv(a, b) == RMul(a, RInv(b))
RZeroAll(a) == \A k \in 1..NP : a[k] = 0
RBlind(a)   == {k \in 1..NP : a[k] = 0}
RECURSIVE RPow(_, _)
RPow(a, n) == IF n = 0 THEN RInt(1) ELSE RMul(a, RPow(a, n - 1))

\* ---------- lexer over character sequences (ASCII single-char strings) ----------
Digit == {"0","1","2","3","4","5","6","7","8","9"}
DVal(c) == CASE c = "0" -> 0 [] c = "1" -> 1 [] c = "2" -> 2 [] c = "3" -> 3 [] c = "4" -> 4
             [] c = "5" -> 5 [] c = "6" -> 6 [] c = "7" -> 7 [] c = "8" -> 8 [] c = "9" -> 9
Blank == {" ", "\t"}
At(s, i) == IF i <= Len(s) THEN s[i] ELSE "EOF"
RECURSIVE SkipWhile(_, _, _)
SkipWhile(s, i, S) == IF At(s, i) \in S THEN SkipWhile(s, i + 1, S) ELSE i
\* number body from position i (after optional sign): digits, one dot, exponent if followed by sign/digit
RECURSIVE NumBody(_, _, _)
NumBody(s, i, dot) ==
  IF At(s, i) \in Digit THEN NumBody(s, i + 1, dot)
  ELSE IF At(s, i) = "." /\ ~dot THEN NumBody(s, i + 1, TRUE)
  ELSE IF At(s, i) \in {"e", "E"} /\ At(s, i + 1) \in (Digit \cup {"+", "-"})
       THEN LET j == IF At(s, i + 1) \in {"+", "-"} THEN i + 2 ELSE i + 1 IN
            NumBody(s, SkipWhile(s, j, Digit), dot)
  ELSE i
Tok(k, a, b) == [k |-> k, a |-> a, b |-> b]   \* half-open [a, b)
RECURSIVE Lex(_, _)
Lex(s, i) ==
  IF i > Len(s) THEN <<>>
  ELSE LET c == s[i] IN
    IF c \in Blank THEN LET j == SkipWhile(s, i, Blank) IN <<Tok("WS", i, j)>> \o Lex(s, j)
    ELSE IF c \in Digit THEN LET j == NumBody(s, i, FALSE) IN <<Tok("NUM", i, j)>> \o Lex(s, j)
    ELSE IF c = "." THEN LET j == NumBody(s, i + 1, TRUE) IN
         IF j = i + 1 THEN <<Tok("ERR", i, j)>> \o Lex(s, j) ELSE <<Tok("NUM", i, j)>> \o Lex(s, j)
    ELSE IF c \in {"+", "-"} THEN LET j == NumBody(s, i + 1, FALSE) IN
         IF j = i + 1 THEN <<Tok(c, i, j)>> \o Lex(s, j) ELSE <<Tok("NUM", i, j)>> \o Lex(s, j)
    ELSE IF c = "*" THEN IF At(s, i + 1) = "*" THEN <<Tok("^", i, i + 2)>> \o Lex(s, i + 2)
                         ELSE <<Tok("*", i, i + 1)>> \o Lex(s, i + 1)
    ELSE IF c \in {"/", "^", "(", ")", "%", ","} THEN <<Tok(c, i, i + 1)>> \o Lex(s, i + 1)
    ELSE <<Tok("ERR", i, i + 1)>> \o Lex(s, i + 1)

\* ---------- literal denotation: residues of the exact value ----------
\* mantissa digits (point removed), number of fraction digits, exponent
RECURSIVE LitScan(_, _, _, _, _, _)
LitScan(s, i, b, ds, fr, dot) ==   \* returns [ds, fr, i]
  IF i < b /\ s[i] \in Digit THEN LitScan(s, i + 1, b, Append(ds, DVal(s[i])), IF dot THEN fr + 1 ELSE fr, dot)
  ELSE IF i < b /\ s[i] = "." THEN LitScan(s, i + 1, b, ds, fr, TRUE)
  ELSE [ds |-> ds, fr |-> fr, i |-> i]
RECURSIVE ExpVal(_, _, _, _)
ExpVal(s, i, b, acc) == IF i < b THEN ExpVal(s, i + 1, b, acc * 10 + DVal(s[i])) ELSE acc
LitRes(s, a, b) ==
  LET neg == s[a] = "-"
      st  == IF s[a] \in {"+", "-"} THEN a + 1 ELSE a
      m   == LitScan(s, st, b, <<>>, 0, FALSE)
      hasE == m.i < b
      eneg == hasE /\ At(s, m.i + 1) = "-"
      es  == IF hasE THEN (IF At(s, m.i + 1) \in {"+", "-"} THEN m.i + 2 ELSE m.i + 1) ELSE b
      e   == IF hasE THEN ExpVal(s, es, b, 0) ELSE 0
      sh  == (IF eneg THEN 0 - e ELSE e) - m.fr
      mant == ResDigits(m.ds)
      ten == RInt(10)
      v   == IF sh >= 0 THEN RMul(mant, RPow(ten, sh)) ELSE RDiv(mant, RPow(ten, 0 - sh))
  IN IF neg THEN RSub(RInt(0), v) ELSE v

\* ---------- grammar: precedence climbing over tokens without blanks ----------
NoWS(ts) == SelectSeq(ts, LAMBDA t : t.k # "WS")
Prio(k) == CASE k \in {"+", "-"} -> 2 [] k \in {"*", "/"} -> 3 [] k = "^" -> 10 [] OTHER -> 0
\* value: [ok, r (residues), int (exact small int or "none"), next]
Bad(n) == [ok |-> FALSE, dz |-> FALSE, r |-> RInt(0), next |-> n]
DivZero(n) == [ok |-> FALSE, dz |-> TRUE, r |-> RInt(0), next |-> n]
RECURSIVE Expr(_, _, _, _), Prim(_, _, _), Climb(_, _, _, _, _)
Prim(s, ts, i) ==
  IF i > Len(ts) THEN Bad(i)
  ELSE IF ts[i].k = "NUM" THEN
       LET v == LitRes(s, ts[i].a, ts[i].b) IN
       IF i + 1 <= Len(ts) /\ ts[i + 1].k = "%" THEN [ok |-> TRUE, dz |-> FALSE, r |-> RDiv(v, RInt(100)), next |-> i + 2]
       ELSE [ok |-> TRUE, dz |-> FALSE, r |-> v, next |-> i + 1]
  ELSE IF ts[i].k = "(" THEN
       LET e == Expr(s, ts, i + 1, 1) IN
       IF e.ok /\ e.next <= Len(ts) /\ ts[e.next].k = ")" THEN [e EXCEPT !.next = e.next + 1]
       ELSE IF e.dz THEN e ELSE Bad(e.next)
  ELSE Bad(i)
\* small exact integer value of a literal token used as exponent (|n| <= 99), else "none"
ExpoOf(s, t) == LET neg == s[t.a] = "-"
                    st == IF s[t.a] \in {"+","-"} THEN t.a + 1 ELSE t.a
                    allDig == \A j \in st..(t.b - 1) : s[j] \in Digit
                IN IF allDig /\ t.b - st <= 2 THEN (IF neg THEN 0 - ExpVal(s, st, t.b, 0) ELSE ExpVal(s, st, t.b, 0)) ELSE 1000
Apply(op, l, r, rexp) ==
  CASE op = "+" -> RAdd(l, r) [] op = "-" -> RSub(l, r) [] op = "*" -> RMul(l, r)
    [] op = "/" -> RDiv(l, r)
    [] op = "^" -> IF rexp >= 0 THEN RPow(l, rexp) ELSE RInv(RPow(l, 0 - rexp))
Climb(s, ts, lhs, i, minp) ==
  IF ~lhs.ok \/ i > Len(ts) \/ Prio(ts[i].k) = 0 \/ Prio(ts[i].k) < minp THEN [lhs EXCEPT !.next = i]
  ELSE LET op == ts[i].k
           p  == Prio(op)
           rhs == Expr(s, ts, i + 1, p + 1)      \* left associative: rhs binds tighter only
           rexp == IF op = "^" /\ i + 1 <= Len(ts) /\ ts[i + 1].k = "NUM" /\ rhs.next = i + 2 THEN ExpoOf(s, ts[i + 1]) ELSE 1000
       IN IF ~rhs.ok THEN rhs
          ELSE IF op = "/" /\ RZeroAll(rhs.r) THEN DivZero(rhs.next)
          ELSE IF op = "^" /\ rexp = 1000 THEN Bad(rhs.next)
          ELSE IF op = "^" /\ rexp < 0 /\ RZeroAll(lhs.r) THEN DivZero(rhs.next)
          ELSE Climb(s, ts, [ok |-> TRUE, dz |-> FALSE, r |-> Apply(op, lhs.r, rhs.r, rexp), next |-> rhs.next], rhs.next, minp)
Expr(s, ts, i, minp) == LET p == Prim(s, ts, i) IN Climb(s, ts, p, p.next, minp)
====
