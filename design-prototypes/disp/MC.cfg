INIT Init
NEXT Next
INVARIANT Inv
CHECK_DEADLOCK FALSE
CONSTANTS OneDigitLookahead = FALSE
 BigIgnoresFraction = FALSE
 BigMarksZeros = FALSE
 MaxN = 300
 MaxD = 40
 Limits = {1,2,3,6,12}
 ELimits = {1,2,3,8}
