---- MODULE Display ----
EXTENDS Integers, Sequences, TLC
CONSTANTS OneDigitLookahead,   \* pinned: leading-zero path pulls a digit past its budget and drops it
          BigIgnoresFraction,  \* pinned: scientific path with no budget left ignores a non-zero fraction
          BigMarksZeros,       \* pinned: scientific path marks cut integer digits even if all zero
          MaxN, MaxD, Limits, ELimits

RECURSIVE IntDigits(_)
IntDigits(x) == IF x < 10 THEN <<x>> ELSE Append(IntDigits(x \div 10), x % 10)
\* fraction digits of rem/d: first k digits and the remainder after them
RECURSIVE Frac(_, _, _, _)
Frac(rem, d, k, acc) == IF k = 0 \/ rem = 0 THEN [ds |-> acc, rem |-> rem]
                        ELSE Frac((rem * 10) % d, d, k - 1, Append(acc, (rem * 10) \div d))
AllZero(s) == \A i \in 1..Len(s) : s[i] = 0
Take(s, k) == SubSeq(s, 1, IF k < Len(s) THEN k ELSE Len(s))
Drop(s, k) == SubSeq(s, k + 1, Len(s))

\* ---- declarative: what a faithful rendering with last printed digit at 10^scale must show ----
\* significant digit string (no leading zeros except a single 0) of floor(|x| / 10^scale), and whether anything non-zero was cut
Truth(n, d, scale) ==
  LET ip == IntDigits(n \div d)
      rem == n % d IN
  IF scale <= 0 THEN LET f == Frac(rem, d, 0 - scale, <<>>)
                         pad == [i \in 1..((0 - scale) - Len(f.ds)) |-> 0] IN
                     [ds |-> ip \o f.ds \o pad, cut |-> f.rem # 0]
  ELSE IF scale >= Len(ip) THEN [ds |-> <<0>>, cut |-> n # 0]
  ELSE [ds |-> Take(ip, Len(ip) - scale), cut |-> ~AllZero(Drop(ip, Len(ip) - scale)) \/ rem # 0]
RECURSIVE Strip(_)
Strip(s) == IF Len(s) > 1 /\ s[1] = 0 THEN Strip(Tail(s)) ELSE s
Faithful(n, d, out) == LET t == Truth(n, d, out.scale) IN Strip(out.ds) = Strip(t.ds) /\ (out.mark <=> t.cut)

\* ---- operational: the three paths of rational/display.rs, result as (digits, scale of last digit, mark) ----
Big(n, d, limit) ==
  LET ip == IntDigits(n \div d)
      rem == n % d
      rest == Tail(ip)
      used == IF limit < Len(rest) THEN limit ELSE Len(rest)
      more == Len(rest) > used
      remaining == limit - used
      f == IF ~more /\ remaining > 0 THEN Frac(rem, d, remaining, <<>>) ELSE [ds |-> <<>>, rem |-> rem]
      mark == IF more THEN (IF BigMarksZeros THEN TRUE ELSE ~AllZero(Drop(rest, used)) \/ rem # 0)
              ELSE IF remaining > 0 THEN f.rem # 0
              ELSE (IF BigIgnoresFraction THEN FALSE ELSE rem # 0)
  IN [ds |-> <<ip[1]>> \o Take(rest, used) \o f.ds, scale |-> (Len(rest) - used) - Len(f.ds), mark |-> mark, path |-> "big"]
Whole(n, d, limit) ==
  LET ip == IntDigits(n \div d)
      rem == n % d
      f == Frac(rem, d, limit, <<>>)
  IN [ds |-> ip \o f.ds, scale |-> 0 - Len(f.ds), mark |-> f.rem # 0, path |-> "whole"]
\* leading-zero path: skip zeros (not budgeted), then `limit` digits
RECURSIVE LeadZeros(_, _, _)
LeadZeros(rem, d, z) == IF (rem * 10) \div d = 0 THEN LeadZeros((rem * 10) % d, d, z + 1) ELSE [rem |-> rem, z |-> z]
Small(n, d, limit) ==
  LET lz == LeadZeros(n % d, d, 0)
      f == Frac(lz.rem, d, limit, <<>>)
      \* the pinned loop pulls one more digit before noticing the budget is spent
      extra == IF OneDigitLookahead /\ f.rem # 0 THEN (f.rem * 10) % d ELSE f.rem
  IN [ds |-> <<0>> \o f.ds, scale |-> 0 - (lz.z + Len(f.ds)), mark |-> extra # 0, path |-> "small"]
Render(n, d, limit, el) ==
  LET div == n \div d IN
  IF Len(IntDigits(div)) - 1 >= el THEN Big(n, d, limit)
  ELSE IF div # 0 \/ n % d = 0 THEN Whole(n, d, limit)
  ELSE Small(n, d, limit)

VARIABLES n, d, limit, el
Init == n \in 0..MaxN /\ d \in 1..MaxD /\ limit \in Limits /\ el \in ELimits
Next == UNCHANGED <<n, d, limit, el>>
Inv == Faithful(n, d, Render(n, d, limit, el))
====
