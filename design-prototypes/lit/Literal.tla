---- MODULE Literal ----
EXTENDS Integers, Sequences, TLC
CONSTANT MaxLen
Digits == {"0", "1", "9"}
Alphabet == Digits \cup {"+", "-", ".", "e", "E"}
DVal(c) == CASE c = "0" -> 0 [] c = "1" -> 1 [] c = "9" -> 9

\* ---------------- declarative: shape and denotation ----------------
\* split s into sign / integer digits / point? / fraction digits / exponent marker? / exponent sign / exponent digits
RECURSIVE Span(_, _, _)
Span(s, i, S) == IF i <= Len(s) /\ s[i] \in S THEN Span(s, i + 1, S) ELSE i
Shape(s) ==
  LET a == IF Len(s) >= 1 /\ s[1] \in {"+", "-"} THEN 2 ELSE 1      \* start of integer digits
      b == Span(s, a, Digits)                                        \* end of integer digits
      hasP == b <= Len(s) /\ s[b] = "."
      c == IF hasP THEN b + 1 ELSE b                                 \* start of fraction digits
      d == Span(s, c, Digits)                                        \* end of fraction digits
      hasE == d <= Len(s) /\ s[d] \in {"e", "E"}
      e1 == IF hasE THEN d + 1 ELSE d
      e2 == IF hasE /\ e1 <= Len(s) /\ s[e1] \in {"+", "-"} THEN e1 + 1 ELSE e1
      f == Span(s, e2, Digits)
  IN [neg |-> Len(s) >= 1 /\ s[1] = "-", ip |-> SubSeq(s, a, b - 1), fp |-> SubSeq(s, c, d - 1),
      hasE |-> hasE, eneg |-> hasE /\ e1 <= Len(s) /\ s[e1] = "-", ed |-> SubSeq(s, e2, f - 1), end |-> f]
WellFormed(s) == LET h == Shape(s) IN
  /\ h.end = Len(s) + 1
  /\ Len(h.ip) + Len(h.fp) >= 1
  /\ h.hasE => Len(h.ed) >= 1
\* a viable prefix can still be extended to a well-formed literal
Viable(s) == Shape(s).end = Len(s) + 1
RECURSIVE ToNum(_, _, _)
ToNum(ds, i, acc) == IF i > Len(ds) THEN acc ELSE ToNum(ds, i + 1, acc * 10 + DVal(ds[i]))
DigitVals(ds) == [i \in 1..Len(ds) |-> DVal(ds[i])]
RECURSIVE StripL(_), StripR(_)
StripL(ds) == IF Len(ds) >= 1 /\ ds[1] = 0 THEN StripL(Tail(ds)) ELSE ds
StripR(v) == IF Len(v.ds) >= 1 /\ v.ds[Len(v.ds)] = 0 THEN StripR([v EXCEPT !.ds = SubSeq(v.ds, 1, Len(v.ds) - 1), !.e = v.e + 1]) ELSE v
\* canonical exact value: sign, digit sequence without leading or trailing zeros, power of ten; zero is <<>>
Canon(neg, ds, e) == LET v == StripR([ds |-> StripL(ds), e |-> e]) IN
                     IF v.ds = <<>> THEN [neg |-> FALSE, ds |-> <<>>, e |-> 0] ELSE [neg |-> neg, ds |-> v.ds, e |-> v.e]
Denote(s) == LET h == Shape(s)
                 ex == IF h.hasE THEN (IF h.eneg THEN 0 - ToNum(h.ed, 1, 0) ELSE ToNum(h.ed, 1, 0)) ELSE 0
             IN Canon(h.neg, DigitVals(h.ip \o h.fp), ex - Len(h.fp))

\* ---------------- operational: impl FromStr for Rational, byte by byte ----------------
RECURSIVE ExpLoop(_, _, _, _), Loop(_, _, _, _, _, _)
ExpLoop(s, i, init, exp) ==     \* returns [ok, exp]
  IF i > Len(s) THEN [ok |-> TRUE, exp |-> exp]
  ELSE IF s[i] = "0" /\ ~init THEN ExpLoop(s, i + 1, init, exp)
  ELSE IF s[i] \in Digits THEN ExpLoop(s, i + 1, TRUE, exp * 10 + DVal(s[i]))
  ELSE [ok |-> FALSE, exp |-> 0]
Loop(s, i, init, dot, dots, out) ==    \* out: digit sequence standing for the big integer
  IF i > Len(s) THEN [ok |-> TRUE, out |-> out, sh |-> 0 - dots]
  ELSE LET b == s[i] IN
    IF b = "0" /\ ~init THEN Loop(s, i + 1, init, dot, dots, out)
    ELSE IF b \in Digits THEN Loop(s, i + 1, TRUE, dot, IF dot THEN dots + 1 ELSE dots, Append(out, DVal(b)))
    ELSE IF b = "." /\ ~dot THEN Loop(s, i + 1, TRUE, TRUE, dots, out)
    ELSE IF b \in {"e", "E"} THEN
         LET hasSign == i + 1 <= Len(s) /\ s[i + 1] \in {"+", "-"}
             eneg == hasSign /\ s[i + 1] = "-"
             r == ExpLoop(s, IF hasSign THEN i + 2 ELSE i + 1, FALSE, 0) IN
         IF r.ok THEN [ok |-> TRUE, out |-> out, sh |-> (IF eneg THEN 0 - r.exp ELSE r.exp) - dots]
         ELSE [ok |-> FALSE, out |-> <<>>, sh |-> 0]
    ELSE [ok |-> FALSE, out |-> <<>>, sh |-> 0]
FromStr(s) ==
  LET hasSign == Len(s) >= 1 /\ s[1] \in {"+", "-"}
      neg == hasSign /\ s[1] = "-"
      r == Loop(s, IF hasSign THEN 2 ELSE 1, FALSE, FALSE, 0, <<>>) IN
  IF r.ok THEN [ok |-> TRUE, v |-> Canon(neg, r.out, r.sh)] ELSE [ok |-> FALSE, v |-> Canon(FALSE, <<>>, 0)]

VARIABLE s
Init == s = <<>>
Next == /\ Len(s) < MaxLen
        /\ \E c \in Alphabet : s' = Append(s, c) /\ Viable(s')
Exact == WellFormed(s) => (FromStr(s).ok /\ FromStr(s).v = Denote(s))
====
