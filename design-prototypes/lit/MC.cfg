INIT Init
NEXT Next
INVARIANT Exact
CHECK_DEADLOCK FALSE
CONSTANT MaxLen = 8
