import re, subprocess, sys, itertools, collections
try:
    import tomllib
except ImportError:
    import tomli as tomllib
doc = tomllib.load(open('/repo/tools/gen/data.toml','rb'))
PREF = {'YOTTA':24,'ZETTA':21,'EXA':18,'PETA':15,'TERA':12,'GIGA':9,'MEGA':6,'KILO':3,'HECTO':2,'DECA':1,'DECI':-1,'CENTI':-2,'MILLI':-3,'MICRO':-6,'NANO':-9,'PICO':-12,'FEMTO':-15,'ATTO':-18,'ZEPTO':-21,'YOCTO':-24}
prefixes = {}   # spelling -> exp
for p in doc['prefixes']:
    for n in p['names']: prefixes[n] = PREF[p['prefix']]
units = {}      # name -> (unit key, bias)
for u in doc['units']:
    key = u['unit'] if u['type']=='base' else 'Derived:%d' % int(u['id'],16)
    for n in u['names']: units[n] = (key, u.get('prefix_bias',0))
names = sorted(units)
def typable(w): return re.fullmatch(r"[A-Za-z0-9°']+", w) is not None and w != 'to'
# all readings of w as (prefix? name)+ ; a reading = tuple of (unit key, prefix exp incl. bias)
from functools import lru_cache
@lru_cache(None)
def readings(w):
    if w == '': return {()}
    out = set()
    for n,(key,bias) in units.items():
        if w.startswith(n):
            for rest in readings(w[len(n):]): out.add(((key,bias),)+rest)
    for ps,pe in prefixes.items():
        if w.startswith(ps):
            r = w[len(ps):]
            for n,(key,bias) in units.items():
                if r.startswith(n):
                    for rest in readings(r[len(n):]): out.add(((key,pe+bias),)+rest)
    return out
def norm(reading):
    # combine like the tool: same unit -> power accumulates (prefix must match, else the tool errors)
    d = collections.OrderedDict()
    for key,px in reading:
        if key in d:
            if d[key][1] != px: return None
            d[key] = (d[key][0]+1, px)
        else: d[key] = (1, px)
    return frozenset((k,v[0],v[1]) for k,v in d.items() if v[0] != 0)
words = set()
for n in names: words.add(n)
for ps in prefixes:
    for n in names: words.add(ps+n)
mode = sys.argv[1] if len(sys.argv)>1 else 'single'
if mode == 'pairs':
    short = [n for n in names if len(n) <= 3]
    for a in short:
        for b in short: words.add(a+b)
    for ps in ['k','m','c','da','h','M','T','a','y','d','p']:
        for a in short:
            for b in short[:60]: words.add(ps+a+b)
words = sorted(w for w in words if typable(w))
print('words', len(words), file=sys.stderr)
res = subprocess.run(['./target/release/words'], input='\n'.join(words)+'\n', capture_output=True, text=True).stdout.strip().split('\n')
stats = collections.Counter(); examples = collections.defaultdict(list)
for line in res:
    f = line.split('\t'); w = f[0]
    rs = readings(w)
    valid = {norm(r) for r in rs} - {None}
    if f[1] == 'OK':
        got = frozenset((p.split(',')[0], int(p.split(',')[1]), int(p.split(',')[2])) for p in f[2].split(';') if p)
        if got in valid: k = 'ok'
        else: k = 'ACCEPTED-BUT-NOT-A-READING'
    elif f[1] == 'PANIC': k = 'PANIC'
    else:
        own = w in units
        if own: k = 'DOCUMENTED-NAME-REJECTED'
        elif valid: k = 'rejected-though-readable (allowed)'
        else: k = 'rejected-unreadable (fine)'
    stats[k] += 1
    if len(examples[k]) < 12: examples[k].append((w, f[1:], sorted(map(sorted, valid))[:2] if k.startswith('ACC') else ''))
    # own-name meaning
    if w in units and f[1]=='OK':
        key,bias = units[w]
        if got != frozenset({(key,1,bias)}):
            stats['OWN-NAME-DIFFERENT-MEANING'] += 1; examples['OWN-NAME-DIFFERENT-MEANING'].append((w, f[2]))
for k,v in stats.items(): print(v, k, examples[k][:8])
