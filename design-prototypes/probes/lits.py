import itertools, re, subprocess, sys
import sys
sys.set_int_max_str_digits(0)
from fractions import Fraction
alpha = "019+-.eE"
wf = re.compile(r'^([+-]?)(?:(\d+)(?:\.(\d*))?|\.(\d+))(?:[eE]([+-]?)(\d+))?$')
items = []
for n in range(1, int(sys.argv[1])+1):
    for t in itertools.product(alpha, repeat=n):
        s = ''.join(t); m = wf.match(s)
        if not m: continue
        sg, ip, fp, fp2, es, ed = m.groups()
        ip = ip or ''; fp = fp if fp is not None else (fp2 or '')
        v = Fraction(int((ip+fp) or '0'), 10**len(fp))
        if ed: v *= Fraction(10)**(int(ed) * (-1 if es == '-' else 1))
        if sg == '-': v = -v
        items.append((s, v))
        items.append((s+'%', v/100))
print(len(items), 'well-formed literals', file=sys.stderr)
out = subprocess.run(['./target/release/lits'], input='\n'.join(s for s,_ in items if not s.endswith('%'))+'\n', capture_output=True, text=True, env={'XDG_DATA_HOME':'/tmp/scratch/xdg'}).stdout.strip().split('\n')
exp = {s: v for s, v in items}
bad = 0
for line in out:
    s, a, b = line.split('\t'); v = exp[s]; want = f"{v.numerator}/{v.denominator}"
    if a != want or b != want:
        bad += 1
        if bad <= 15: print('DIFF', s, 'want', want, 'parse', a, 'query', b)
print('checked', len(out), 'bad', bad)
