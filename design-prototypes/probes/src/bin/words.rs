use anything::Compound;
use serde_cbor::Value;
use std::io::BufRead;
fn unit_name(v: &Value) -> String { match v { Value::Text(s) => s.clone(), Value::Map(m) => { let (k, x) = m.iter().next().unwrap(); format!("{}:{}", match k { Value::Text(s) => s.clone(), _ => "?".into() }, match x { Value::Integer(i) => i.to_string(), _ => "?".into() }) } , _ => "?".into() } }
fn main() {
    std::panic::set_hook(Box::new(|_| {}));
    for line in std::io::stdin().lock().lines() {
        let w = line.unwrap();
        let r = std::panic::catch_unwind(|| str::parse::<Compound>(&w));
        match r {
            Err(_) => println!("{}\tPANIC", w),
            Ok(Err(e)) => println!("{}\tERR\t{}", w, e),
            Ok(Ok(c)) => {
                let bytes = serde_cbor::to_vec(&c).unwrap();
                let v: Value = serde_cbor::from_slice(&bytes).unwrap();
                let mut parts = Vec::new();
                if let Value::Map(m) = v { for (_, names) in m { if let Value::Map(nm) = names { for (u, st) in nm { let mut pw = 0i128; let mut px = 0i128; if let Value::Map(sm) = st { for (k, x) in sm { if let (Value::Text(k), Value::Integer(i)) = (k, x) { if k == "power" { pw = i } else { px = i } } } } parts.push(format!("{},{},{}", unit_name(&u), pw, px)); } } } }
                println!("{}\tOK\t{}", w, parts.join(";"));
            }
        }
    }
}
