use anything::rational::DisplaySpec;
use anything::Rational;
fn main() {
    let a: Vec<String> = std::env::args().skip(1).collect();
    let r: Rational = if a[0].contains('/') { let (n,d)=a[0].split_once('/').unwrap(); Rational::new(n.parse::<i128>().unwrap(), d.parse::<i128>().unwrap()) } else { a[0].parse().unwrap() };
    let mut spec = DisplaySpec::default(); spec.limit = a[1].parse().unwrap(); spec.exponent_limit = a[2].parse().unwrap();
    println!("{}", r.display(&spec));
}
