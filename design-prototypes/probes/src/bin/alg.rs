use anything::*;
use num::{BigInt, BigRational, Zero, One};
use std::collections::BTreeMap;
struct Rng(u64);
impl Rng { fn next(&mut self) -> u64 { self.0 ^= self.0 << 13; self.0 ^= self.0 >> 7; self.0 ^= self.0 << 17; self.0 } fn below(&mut self, n: u64) -> u64 { self.next() % n } }
// own table: name -> (dims [kg,m,s,A], scale num, den)
fn table() -> Vec<(&'static str, [i32;4], i64, i64)> { vec![
 ("m",[0,1,0,0],1,1),("s",[0,0,1,0],1,1),("kg",[1,0,0,0],1,1),("A",[0,0,0,1],1,1),("g",[1,0,0,0],1,1000),("mg",[1,0,0,0],1,1000000),
 ("km",[0,1,0,0],1000,1),("cm",[0,1,0,0],1,100),("mm",[0,1,0,0],1,1000),("ms",[0,0,1,0],1,1000),
 ("N",[1,1,-2,0],1,1),("J",[1,2,-2,0],1,1),("W",[1,2,-3,0],1,1),("V",[1,2,-3,-1],1,1),("C",[0,0,1,1],1,1),("Pa",[1,-1,-2,0],1,1),
 ("kN",[1,1,-2,0],1000,1),("kJ",[1,2,-2,0],1000,1),("mV",[1,2,-3,-1],1,1000),
 ("ft",[0,1,0,0],3048,10000),("in",[0,1,0,0],254,10000),("min",[0,0,1,0],60,1),("hr",[0,0,1,0],3600,1),("l",[0,3,0,0],1,1000),("mi",[0,1,0,0],1609344,1000),("lb",[1,0,0,0],45359237,100000000),("btu",[1,2,-2,0],1055,1),("Wb",[1,2,-2,-1],1,1),("kt",[0,1,-1,0],1852,3600),
]}
type Q = (BigRational, [i32;4]);
fn gen_unit(rng: &mut Rng, t: &[(&'static str,[i32;4],i64,i64)]) -> (String, BigRational, [i32;4]) {
    let n = 1 + rng.below(3);
    let mut s = String::new(); let mut scale = BigRational::one(); let mut dims = [0i32;4];
    let mut used = std::collections::HashSet::new();
    let mut inv = false;
    for i in 0..n {
        let (name, d, sn, sd) = t[rng.below(t.len() as u64) as usize];
        // avoid same base unit with different prefix in one compound (PrefixMismatch) : use unit letters key
        let key = name.trim_start_matches(|c| c=='k'||c=='c'||c=='m').to_string();
        let key = if key.is_empty() { name.to_string() } else { key };
        if !used.insert(key) { continue; }
        let p = [1,1,1,2,-1,-2,3][rng.below(7) as usize];
        if i > 0 { if !inv && rng.below(3) == 0 { s.push('/'); inv = true; } else { s.push('*'); } }
        s.push_str(name); if p != 1 { s.push_str(&format!("^{}", p)); }
        let eff = if inv { -p } else { p };
        let sc = BigRational::new(sn.into(), sd.into());
        scale = scale * num::pow::Pow::pow(&sc, eff);
        for k in 0..4 { dims[k] += d[k]*eff; }
    }
    if s.ends_with('*') || s.ends_with('/') { s.pop(); }
    (s, scale, dims)
}
fn si_of(db: &Db, q: &str) -> Result<Q, String> {
    // evaluate q then convert to base via own knowledge: we ask tool "(...) to kg^a*m^b*s^c*A^d"
    let parsed = parse(q).map_err(|e| e.to_string())?;
    let mut d = Vec::new();
    let res: Vec<_> = query(&parsed, db, Options::default(), &mut d).collect();
    if res.len() != 1 { return Err(format!("{} results", res.len())); }
    match &res[0] { Ok(v) => Ok((BigRational::new(v.value.numer().clone(), v.value.denom().clone()), [0;4])), Err(e) => Err(e.to_string()) }
}
fn base_expr(d: [i32;4]) -> String { let names=["kg","m","s","A"]; let mut parts=Vec::new(); for k in 0..4 { if d[k]!=0 { parts.push(format!("{}^{}", names[k], d[k])); } } parts.join("*") }
fn main() {
    std::panic::set_hook(Box::new(|_| {}));
    let db = Db::in_memory().unwrap();
    let t = table();
    let mut rng = Rng(0x9e3779b97f4a7c15);
    let n: usize = std::env::args().nth(1).unwrap().parse().unwrap();
    let mut stats: BTreeMap<String,(u64,String)> = BTreeMap::new();
    for _ in 0..n {
        let (ua, sa, da) = gen_unit(&mut rng, &t); let (ub, sb, dbb) = gen_unit(&mut rng, &t);
        if ua.is_empty() || ub.is_empty() { continue; }
        let x = 1 + rng.below(9) as i64; let y = 1 + rng.below(9) as i64;
        for op in ["*", "/"] {
            let mut dims = [0i32;4]; for k in 0..4 { dims[k] = if op=="*" { da[k]+dbb[k] } else { da[k]-dbb[k] }; }
            let expect = if op=="*" { BigRational::from_integer(BigInt::from(x*y)) * &sa * &sb } else { BigRational::new(x.into(), y.into()) * &sa / &sb };
            let be = base_expr(dims);
            let q = if be.is_empty() { format!("{}{} {} {}{}", x, ua, op, y, ub) } else { format!("{}{} {} {}{} to {}", x, ua, op, y, ub, be) };
            let r = std::panic::catch_unwind(std::panic::AssertUnwindSafe(|| si_of(&db, &q)));
            let verdict = match r { Err(_) => "panic".to_string(), Ok(Err(e)) => format!("err: {}", e.split('`').next().unwrap_or("").chars().take(30).collect::<String>()), Ok(Ok((v,_))) => if v == expect { "ok".into() } else { "WRONG VALUE".into() } };
            let e = stats.entry(verdict).or_insert((0, q.clone())); e.0 += 1; if q.len() < e.1.len() { e.1 = q; }
        }
        // add / commutativity when same dims
        if da == dbb {
            let expect = (BigRational::from_integer(x.into()) * &sa + BigRational::from_integer(y.into()) * &sb);
            let be = base_expr(da);
            if !be.is_empty() {
            let q = format!("{}{} + {}{} to {}", x, ua, y, ub, be);
            let r = std::panic::catch_unwind(std::panic::AssertUnwindSafe(|| si_of(&db, &q)));
            let verdict = match r { Err(_) => "add panic".to_string(), Ok(Err(e)) => format!("add err: {}", e.chars().take(30).collect::<String>()), Ok(Ok((v,_))) => if v == expect { "add ok".into() } else { "add WRONG".into() } };
            let e = stats.entry(verdict).or_insert((0, q.clone())); e.0 += 1; if q.len() < e.1.len() { e.1 = q; } }
        }
    }
    for (k,(c,ex)) in stats { println!("{:8} {:45} e.g. {}", c, k, ex); }
}
