use anything::rational::DisplaySpec;
use anything::Rational;
use num::{BigInt, BigRational, Zero, Signed, One};
use std::str::FromStr;

// parse printed text: returns (neg, mantissa digits as BigInt, scale = power of ten of last digit, mark)
fn read(s: &str) -> Option<(bool, BigInt, i64, bool)> {
    let mut t = s.to_string();
    let mut exp: i64 = 0;
    if let Some(i) = t.find('e') { exp = t[i+1..].parse().ok()?; t.truncate(i); }
    let mark = t.contains('…');
    if mark { if !t.ends_with('…') { return None; } t = t.replace('…', ""); }
    let neg = t.starts_with('-');
    if neg { t.remove(0); }
    let (ip, fp) = match t.find('.') { Some(i) => (t[..i].to_string(), t[i+1..].to_string()), None => (t.clone(), String::new()) };
    if ip.is_empty() || !ip.chars().all(|c| c.is_ascii_digit()) || !fp.chars().all(|c| c.is_ascii_digit()) { return None; }
    let m = BigInt::from_str(&format!("{}{}", ip, fp)).ok()?;
    Some((neg, m, exp - fp.len() as i64, mark))
}
fn main() {
    let mut bad = 0u64; let mut total = 0u64;
    let mut kinds: std::collections::BTreeMap<String, (u64, String)> = Default::default();
    let mut vals: Vec<BigRational> = Vec::new();
    for n in -60i64..=60 { for d in 1i64..=60 { vals.push(BigRational::new(n.into(), d.into())); } }
    for k in [3u32, 7, 9, 12, 15, 25, 40] { for n in [1i64, 7, 123456789, 1234567, 10, 100000001, 99999999, 5] { for d in [1i64, 3, 7, 8, 1415, 2] {
        let p = num::pow(BigInt::from(10), k as usize);
        vals.push(BigRational::new(BigInt::from(n) * &p, d.into()));
        vals.push(BigRational::new(BigInt::from(-n), BigInt::from(d) * &p));
        vals.push(BigRational::new(BigInt::from(n) * &p + BigInt::from(1), BigInt::from(d)*2));
    }}}
    for v in &vals {
        let r = Rational::new(v.numer().clone(), v.denom().clone());
        for limit in 1..=20usize { for el in 1..=15usize {
            let mut spec = DisplaySpec::default(); spec.limit = limit; spec.exponent_limit = el; spec.show_continuation = true;
            let s = r.display(&spec).to_string();
            total += 1;
            let verdict = match read(&s) {
                None => "unreadable".to_string(),
                Some((neg, m, scale, mark)) => {
                    // exact |v| / 10^scale
                    let ten = BigRational::from_integer(BigInt::from(10));
                    let sc = if scale >= 0 { num::pow(ten.clone(), scale as usize) } else { num::pow(ten.clone(), (-scale) as usize).recip() };
                    let q = v.abs() / sc;
                    let tr = q.trunc().to_integer();
                    let cut = !(q.clone() - q.trunc()).is_zero();
                    if neg != v.is_negative() && !(v.is_zero()) { "sign".into() }
                    else if tr != m { "digits".into() }
                    else if cut && !mark { "silent-trunc".into() }
                    else if !cut && mark { "spurious-mark".into() }
                    else { "ok".into() }
                }
            };
            let e = kinds.entry(verdict.clone()).or_insert((0, format!("{} limit={} el={} -> {}", v, limit, el, s)));
            e.0 += 1;
            if verdict != "ok" { bad += 1; }
        }}
    }
    println!("total {} bad {}", total, bad);
    for (k, (c, ex)) in kinds { println!("{:14} {:8}  e.g. {}", k, c, ex); }
}
