use anything::*;
use std::io::Read;
#[derive(serde::Deserialize)]
struct Doc { #[serde(default)] constants: Vec<Constant> }
fn main() {
    let db = Db::in_memory().unwrap();
    let mut all = Vec::new();
    for f in ["astronomics", "files", "populations"] {
        let bytes = std::fs::read(format!("/repo/db/{}.bin.gz", f)).unwrap();
        let mut d = flate2::read::GzDecoder::new(&bytes[..]);
        let mut v = Vec::new(); d.read_to_end(&mut v).unwrap();
        let doc: Doc = serde_cbor::from_slice(&v).unwrap();
        println!("{}: {} constants", f, doc.constants.len());
        all.extend(doc.constants);
    }
    let mode = std::env::args().nth(1).unwrap_or_default();
    let mut miss = 0; let mut untypable = 0; let mut wrong = 0; let mut err = 0;
    for c in &all {
        let q = c.tokens.iter().map(|t| t.to_string()).collect::<Vec<_>>().join(" ");
        let typable = c.tokens.iter().all(|t| !t.is_empty() && t.chars().all(|ch| ch.is_ascii_alphanumeric() || ch == '°' || ch == '\'') && !t.chars().next().unwrap().is_ascii_digit() && &**t != "to");
        if mode == "dump" { println!("{:?} typable={} | {} | {}/{} {}", c.tokens, typable, c.description, c.value.numer(), c.value.denom(), c.unit); continue; }
        if !typable { untypable += 1; continue; }
        let parsed = parse(&q).unwrap();
        let mut d = Vec::new();
        let res: Vec<_> = query(&parsed, &db, Options::default().describe(), &mut d).collect();
        if res.len() != 1 || res[0].is_err() { err += 1; println!("ERR {:?} -> {:?}", q, res.iter().map(|r| r.as_ref().map(|v| v.value.clone()).map_err(|e| e.to_string())).collect::<Vec<_>>()); continue; }
        match d.first() { None => { miss += 1; println!("MISS {:?}", q); }
            Some(Description::Constant(_, got)) => { if !c.tokens.iter().all(|t| got.tokens.contains(t)) { wrong += 1; println!("WRONG {:?} -> {:?} ({})", q, got.tokens, got.description); } } }
    }
    println!("total {} untypable {} miss {} wrong {} err {}", all.len(), untypable, miss, wrong, err);
}
