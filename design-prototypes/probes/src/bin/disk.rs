use anything::*;
use tantivy::schema::*;
fn main() {
    let mode = std::env::args().nth(1).unwrap_or_default();
    if mode == "mkempty" {
        let path = std::env::args().nth(2).unwrap();
        std::fs::create_dir_all(&path).unwrap();
        let text_field_indexing = TextFieldIndexing::default().set_tokenizer("ngram").set_index_option(IndexRecordOption::WithFreqsAndPositions);
        let text_options = TextOptions::default().set_indexing_options(text_field_indexing).set_stored();
        let mut schema = Schema::builder();
        schema.add_bytes_field("data", STORED);
        schema.add_text_field("name", text_options);
        tantivy::Index::create_in_dir(&path, schema.build()).unwrap();
        return;
    }
    let db = Db::open().unwrap();
    for q in ["mass", "population", "radius", "moon", "sun", "a", "pop", "population developed regions"] {
        let parsed = parse(q).unwrap();
        let mut d = Vec::new();
        for r in query(&parsed, &db, Options::default().describe(), &mut d) {
            match r { Ok(v) => println!("{:?} => {}/{} [{}]", q, v.value.numer(), v.value.denom(), v.unit), Err(e) => println!("{:?} => ERR {}", q, e) }
        }
    }
}
