use anything::*;
fn run(db: &Db, q: &str, describe: bool) -> (Vec<String>, Vec<(String, String)>) {
    let parsed = parse(q).unwrap(); let mut d = Vec::new();
    let opts = if describe { Options::default().describe() } else { Options::default() };
    let res: Vec<String> = query(&parsed, db, opts, &mut d).map(|r| match r { Ok(v) => format!("{}/{} {}", v.value.numer(), v.value.denom(), v.unit), Err(e) => format!("ERR {}", e) }).collect();
    (res, d.into_iter().map(|Description::Constant(s, c)| (s.to_string(), c.description.to_string())).collect())
}
fn main() {
    let db = Db::in_memory().unwrap();
    let qs = ["mass of earth / mass of moon", "population finland / population world", "pi * 2", "speed of light * 2 to m/s", "mass of sun + mass of earth - mass of moon", "round(population sweden) / 1000", "nosuchfactatall + 1", "mass of earth * 0 + pi", "1 + 2", "earth radius to km", "moon radius + earth radius to m"];
    let mut bad = 0;
    for q in qs {
        let (r0, d0) = run(&db, q, false); let (r1, d1) = run(&db, q, true);
        let fresh = Db::in_memory().unwrap(); let (r2, _) = run(&fresh, q, false);
        if r0 != r1 { bad += 1; println!("VALUE DIFFERS {:?}: {:?} vs {:?}", q, r0, r1); }
        if !d0.is_empty() { bad += 1; println!("DESCRIPTIONS WITHOUT FLAG {:?}", q); }
        if r0 != r2 { println!("note: fresh db differs (tie nondeterminism?) {:?}: {:?} vs {:?}", q, r0, r2); }
        println!("{:45} -> {:?}  desc={:?}", q, r1, d1.iter().map(|x| x.0.clone()).collect::<Vec<_>>());
    }
    println!("bad {}", bad);
}
