use anything::syntax::parser::Parser;
use anything::syntax::lexer::Lexer;
fn main() {
    for q in std::env::args().skip(1) {
        println!("== {:?}", q);
        let toks: Vec<_> = Lexer::new(&q).map(|t| format!("{:?}:{}", t.kind, t.len)).collect();
        println!("tokens: {}", toks.join(" "));
        let tree = Parser::new(&q).parse_root().unwrap();
        let mut out = Vec::new();
        syntree::print::print_with_source(&mut out, &tree, &q).unwrap();
        print!("{}", String::from_utf8(out).unwrap());
    }
}
