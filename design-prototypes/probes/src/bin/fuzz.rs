use anything::*;
use std::collections::BTreeMap;
struct Rng(u64);
impl Rng { fn next(&mut self) -> u64 { self.0 ^= self.0 << 13; self.0 ^= self.0 >> 7; self.0 ^= self.0 << 17; self.0 } fn pick<'a>(&mut self, v: &'a [&'a str]) -> &'a str { v[(self.next() % v.len() as u64) as usize] } }
fn main() {
    std::panic::set_hook(Box::new(|_| {}));
    let db = Db::in_memory().unwrap();
    let toks = ["1","2","0","3.5","-1","10","99"," "," ","  ","+","-","*","/","^2 ","**3 ","^-1 ","^(","(",")",",","to","m","s","kg","km","N","J","°C","°F","K","min","h","%","round","floor","ceil","sin","{","}","population","finland","é","\u{2003}","Ω","μ","²","…","\u{a0}","\u{200b}","\n","\t","'","°","{ ","}","1.","..","--","++","=","#","e5","E","1e","%%","to to","(","((",")","))",",,","round(","floor(1",".","m^2 ","s^-1 ","/s","^2 ","^-3 ","c","g","Ym","ym","btu","W","V","A","pint","x"];
    let mut rng = Rng(0x1234567);
    let n: usize = std::env::args().nth(1).map(|s| s.parse().unwrap()).unwrap_or(200000);
    let mut panics: BTreeMap<String, (u64, String)> = BTreeMap::new();
    let mut badspan = 0u64;
    for _ in 0..n {
        let len = 1 + rng.next() % 12;
        let mut q = String::new();
        for _ in 0..len { q.push_str(rng.pick(&toks)); }
        if std::env::var("TRACEQ").is_ok() { eprintln!("{:?}", q); }
        let r = std::panic::catch_unwind(std::panic::AssertUnwindSafe(|| {
            let parsed = parse(&q).map_err(|e| format!("parse err {}", e))?;
            let mut d = Vec::new();
            for r in query(&parsed, &db, Options::default(), &mut d) {
                match r { Ok(v) => { let _ = format!("{} {}", v.value.display(&Default::default()), v.unit); }
                    Err(e) => { let r = e.range(); let _ = e.to_string(); if r.start > r.end || r.end > q.len() || !q.is_char_boundary(r.start) || !q.is_char_boundary(r.end) { return Err(format!("badspan {:?}", r)); } } }
            }
            Ok::<(), String>(())
        }));
        match r { Ok(Ok(())) => {}, Ok(Err(m)) => { badspan += 1; let k: String = m.chars().take(40).collect(); let e = panics.entry(k).or_insert((0, q.clone())); e.0 += 1; if q.len() < e.1.len() { e.1 = q.clone(); } }
            Err(e) => { let m = e.downcast_ref::<String>().cloned().or(e.downcast_ref::<&str>().map(|s| s.to_string())).unwrap_or_default(); let k: String = m.chars().take(70).collect(); let en = panics.entry(k).or_insert((0, q.clone())); en.0 += 1; if q.len() < en.1.len() { en.1 = q.clone(); } } }
    }
    println!("badspan/parse-err {}", badspan);
    for (k, (c, ex)) in panics { println!("{:6} {:70} e.g. {:?}", c, k, ex); }
}
