use anything::*;
use std::io::Read;
#[derive(serde::Deserialize)]
struct Doc { #[serde(default)] constants: Vec<Constant> }
fn main() {
    // every unit name from data.toml given on stdin
    let mut input = String::new(); std::io::stdin().read_to_string(&mut input).unwrap();
    let mut bad = 0; let mut n = 0; let mut ids = std::collections::BTreeMap::new();
    for w in input.lines() {
        let c = match str::parse::<Compound>(w) { Ok(c) => c, Err(_) => continue };
        n += 1;
        let bytes = serde_cbor::to_vec(&c).unwrap();
        let back: Result<Compound, _> = serde_cbor::from_slice(&bytes);
        match back { Ok(b) if b == c && b.to_string() == c.to_string() => {}, other => { bad += 1; println!("ROUNDTRIP FAIL {} -> {:?}", w, other.map(|b| b.to_string())); } }
        let v: serde_cbor::Value = serde_cbor::from_slice(&bytes).unwrap();
        ids.entry(format!("{:?}", v)).or_insert_with(Vec::new).push((w.to_string(), c.to_string()));
    }
    // distinct displays mapping to the same encoding?
    for (k, v) in &ids { let mut ds: Vec<_> = v.iter().map(|x| x.1.clone()).collect(); ds.sort(); ds.dedup(); if ds.len() > 1 { println!("SAME ENCODING {:?} {}", ds, &k[..60.min(k.len())]); bad += 1; } }
    let mut total = 0;
    for f in ["astronomics", "files", "populations", "sources"] {
        let bytes = std::fs::read(format!("/repo/db/{}.bin.gz", f)).unwrap();
        let mut d = flate2::read::GzDecoder::new(&bytes[..]); let mut v = Vec::new(); d.read_to_end(&mut v).unwrap();
        let raw: serde_cbor::Value = serde_cbor::from_slice(&v).unwrap();
        let rawn = if let serde_cbor::Value::Map(m) = &raw { m.iter().filter_map(|(k, x)| if let (serde_cbor::Value::Text(k), serde_cbor::Value::Array(a)) = (k, x) { if k == "constants" { Some(a.len()) } else { None } } else { None }).next().unwrap_or(0) } else { 0 };
        let doc: Doc = serde_cbor::from_slice(&v).unwrap();
        if doc.constants.len() != rawn { println!("{}: decoded {} of {}", f, doc.constants.len(), rawn); bad += 1; }
        for c in &doc.constants { total += 1; let b = serde_cbor::to_vec(c).unwrap(); let c2: Constant = serde_cbor::from_slice(&b).unwrap(); if c2.value != c.value || c2.unit != c.unit || c2.tokens != c.tokens || c2.description != c.description || c2.source != c.source { bad += 1; println!("CONST FAIL {:?}", c.tokens); } }
    }
    println!("units parsed {} constants {} bad {}", n, total, bad);
}
