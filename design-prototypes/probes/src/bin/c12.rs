use anything::syntax::parser::Parser;
use anything::syntax::lexer::Lexer;
fn main() {
    std::panic::set_hook(Box::new(|_| {}));
    let alpha: Vec<char> = "0 1 9 . e E + - * / ^ % ( ) { } , a t o m s ° ' \t é Ω μ \u{2003} \u{a0} x N _ = # \n".split(' ').filter(|s| !s.is_empty()).map(|s| s.chars().next().unwrap()).chain([' ']).collect();
    println!("alphabet {}", alpha.len());
    let maxlen: usize = std::env::args().nth(1).unwrap().parse().unwrap();
    let mut total = 0u64; let mut bad = 0u64; let mut shown = 0;
    let mut idx = vec![0usize; 0];
    for len in 0..=maxlen {
        idx = vec![0; len];
        loop {
            let s: String = idx.iter().map(|&i| alpha[i]).collect();
            total += 1;
            let r = std::panic::catch_unwind(|| {
                let toks: Vec<_> = Lexer::new(&s).collect();
                let mut pos = 0usize; let mut spans = Vec::new();
                for t in &toks { if t.len == 0 { return Err("empty token".to_string()); } let e = pos + t.len; if e > s.len() || !s.is_char_boundary(e) { return Err(format!("bad boundary {}", e)); } spans.push((format!("{:?}", t.kind), pos, e)); pos = e; }
                if pos != s.len() { return Err(format!("tokens cover {} of {}", pos, s.len())); }
                let tree = Parser::new(&s).parse_root().map_err(|e| format!("tree error {}", e))?;
                let mut leaves = Vec::new();
                for n in tree.walk() { if n.is_empty() && !n.has_children() { /* token or empty node */ } if !n.has_children() { let sp = n.span(); if sp.start != sp.end { leaves.push((format!("{:?}", n.value()), sp.start as usize, sp.end as usize)); } } }
                if leaves != spans { return Err(format!("leaves {:?} != tokens {:?}", leaves, spans)); }
                Ok(())
            });
            let r = match r { Ok(r) => r, Err(_) => Err("panic".into()) };
            if let Err(m) = r { bad += 1; if shown < 12 { shown += 1; println!("{:?}: {}", s, &m[..m.len().min(300)]); } }
            // next
            let mut k = len; let mut done = true;
            while k > 0 { k -= 1; idx[k] += 1; if idx[k] < alpha.len() { done = false; break; } idx[k] = 0; }
            if done { break; }
        }
    }
    println!("total {} bad {}", total, bad);
}
