use anything::*;
struct Rng(u64);
impl Rng { fn next(&mut self) -> u64 { self.0 ^= self.0 << 13; self.0 ^= self.0 >> 7; self.0 ^= self.0 << 17; self.0 } fn below(&mut self, n: u64) -> u64 { self.next() % n } }
fn lit(r: &mut Rng, maxd: u64) -> String {
    let mut s = String::new();
    if r.below(5) == 0 { s.push('-'); }
    let n = 1 + r.below(maxd); for _ in 0..n { s.push((b'0' + r.below(10) as u8) as char); }
    if r.below(3) == 0 { s.push('.'); let n = r.below(maxd); for _ in 0..n { s.push((b'0' + r.below(10) as u8) as char); } }
    if r.below(4) == 0 { s.push('e'); if r.below(2) == 0 { s.push('-'); } s.push_str(&format!("{}", r.below(40))); }
    if r.below(10) == 0 { s.push('%'); }
    s
}
fn expr(r: &mut Rng, depth: u32, maxd: u64) -> String {
    if depth == 0 || r.below(3) == 0 { return lit(r, maxd); }
    let n = 1 + r.below(3); let mut s = String::new();
    let first = if r.below(4) == 0 { format!("({})", expr(r, depth - 1, maxd)) } else { lit(r, maxd) };
    s.push_str(&first);
    for _ in 0..n {
        let op = ["+", "-", "*", "/", "^"][r.below(5) as usize];
        s.push(' '); s.push_str(op); s.push(' ');
        if op == "^" { s.push_str(&format!("{}", r.below(7) as i64 - 3)); }
        else if r.below(3) == 0 { s.push_str(&format!("({})", expr(r, depth - 1, maxd))); } else { s.push_str(&lit(r, maxd)); }
    }
    s
}
fn digits(b: &num::BigInt) -> String { let s = b.magnitude().to_string(); format!("[{}]", s.bytes().map(|c| ((c - b'0') as u32).to_string()).collect::<Vec<_>>().join(",")) }
fn main() {
    std::panic::set_hook(Box::new(|_| {}));
    let db = Db::in_memory().unwrap();
    let n: usize = std::env::args().nth(1).unwrap().parse().unwrap();
    let maxd: u64 = std::env::args().nth(2).unwrap().parse().unwrap();
    let mut r = Rng(0x2545F4914F6CDD1D);
    for _ in 0..n {
        let q = expr(&mut r, 3, maxd);
        let out = std::panic::catch_unwind(std::panic::AssertUnwindSafe(|| {
            let parsed = parse(&q).unwrap(); let mut d = Vec::new();
            let res: Vec<_> = query(&parsed, &db, Options::default(), &mut d).collect();
            if res.len() == 1 { if let Ok(v) = &res[0] { return Some((v.value.numer().clone(), v.value.denom().clone())); } } None }));
        let src = format!("[{}]", q.chars().map(|c| format!("\"{}\"", c)).collect::<Vec<_>>().join(","));
        match out { Ok(Some((n, d))) => println!("{{\"src\":{},\"err\":false,\"neg\":{},\"numer\":{},\"denom\":{}}}", src, n.sign() == num::bigint::Sign::Minus, digits(&n), digits(&d)),
            _ => println!("{{\"src\":{},\"err\":true,\"neg\":false,\"numer\":[0],\"denom\":[1]}}", src) }
    }
}
