use anything::*;
use num::{BigRational, BigInt};
struct Rng(u64);
impl Rng { fn next(&mut self) -> u64 { self.0 ^= self.0 << 13; self.0 ^= self.0 >> 7; self.0 ^= self.0 << 17; self.0 } fn below(&mut self, n: u64) -> u64 { self.next() % n } }
fn q(db: &Db, s: &str) -> Result<(BigRational, String), String> {
    let r = std::panic::catch_unwind(std::panic::AssertUnwindSafe(|| {
        let parsed = parse(s).map_err(|e| e.to_string())?; let mut d = Vec::new();
        let res: Vec<_> = query(&parsed, db, Options::default(), &mut d).collect();
        if res.len() != 1 { return Err(format!("{} results", res.len())); }
        match &res[0] { Ok(v) => Ok((BigRational::new(v.value.numer().clone(), v.value.denom().clone()), v.unit.to_string())), Err(e) => Err(e.to_string()) } }));
    match r { Ok(x) => x, Err(_) => Err("PANIC".into()) }
}
fn main() {
    std::panic::set_hook(Box::new(|_| {}));
    let db = Db::in_memory().unwrap();
    let mut rng = Rng(88172645463325252);
    // groups of commensurable unit spellings
    let groups: Vec<Vec<&str>> = vec![
        vec!["m","km","cm","ft","in","mi","yd","au","NM","ftm","ch","Mm","μm"], vec!["s","min","hr","dy","wk","yr","ms","century"], vec!["kg","g","mg","lb","oz","st","ton","t","slug","gr"],
        vec!["m^2","ha","acre","ft^2","km^2","in^2"], vec!["m^3","l","ml","gal","cup","tsp","cm^3","ft^3","cc"], vec!["m/s","km/hr","kt","mi/hr","c","ft/s"], vec!["J","kJ","btu","eV","N*m","W*s","kW*hr","kg*m^2/s^2"],
        vec!["N","kN","kg*m/s^2","lb*ft/s^2"], vec!["Pa","kPa","N/m^2","N/mm^2"], vec!["W","kW","J/s","btu/hr"], vec!["m/s^2","gforce","ft/s^2","km/hr/s"],
    ];
    let temps = ["K", "°C", "°F", "celsius", "fahrenheit", "kelvin"];
    let mut stats = std::collections::BTreeMap::<String, (u64, String)>::new();
    let mut note = |k: String, ex: String| { let e = stats.entry(k).or_insert((0, ex.clone())); e.0 += 1; };
    for _ in 0..4000 {
        let g = &groups[rng.below(groups.len() as u64) as usize];
        let (a, b, c) = (g[rng.below(g.len() as u64) as usize], g[rng.below(g.len() as u64) as usize], g[rng.below(g.len() as u64) as usize]);
        if a.contains('μ') || b.contains('μ') || c.contains('μ') { continue; }
        let x = format!("{}.{}", rng.below(1000), rng.below(100));
        let direct = q(&db, &format!("{} {} to {}", x, a, c));
        let via = q(&db, &format!("{} {} to {} to {}", x, a, b, c));
        let back = q(&db, &format!("{} {} to {} to {}", x, a, c, a));
        let orig = q(&db, &format!("{} {}", x, a));
        let dbl = q(&db, &format!("{} {} * 2 to {}", x, a, c));
        match (&direct, &via) { (Ok(d), Ok(v)) => note(if d.0 == v.0 { "via ok".into() } else { "VIA DIFFERS".into() }, format!("{} {} via {} to {}", x, a, b, c)), (d, v) => note(format!("via err {:?}", d.as_ref().err().or(v.as_ref().err()).map(|s| s.chars().take(40).collect::<String>())), format!("{} {} via {} to {}", x, a, b, c)) }
        match (&back, &orig) { (Ok(d), Ok(v)) => note(if d.0 == v.0 { "roundtrip ok".into() } else { "ROUNDTRIP DIFFERS".into() }, format!("{} {} to {}", x, a, c)), _ => note("roundtrip err".into(), format!("{} {} to {}", x, a, c)) }
        match (&direct, &dbl) { (Ok(d), Ok(v)) => note(if &d.0 * BigRational::from_integer(BigInt::from(2)) == v.0 { "scale ok".into() } else { "SCALE DIFFERS".into() }, format!("{} {} to {}", x, a, c)), _ => note("scale err".into(), format!("{} {} * 2 to {}", x, a, c)) }
        // temperatures: chains
        let (t1, t2, t3) = (temps[rng.below(6) as usize], temps[rng.below(6) as usize], temps[rng.below(6) as usize]);
        let xt = format!("{}{}.{}", if rng.below(2)==0 {"-"} else {""}, rng.below(500), rng.below(100));
        let d = q(&db, &format!("{} {} to {}", xt, t1, t3)); let v = q(&db, &format!("{} {} to {} to {}", xt, t1, t2, t3));
        match (&d, &v) { (Ok(d), Ok(v)) => note(if d.0 == v.0 { "temp chain ok".into() } else { "TEMP CHAIN DIFFERS".into() }, format!("{} {} via {} to {}", xt, t1, t2, t3)), _ => note("temp err".into(), format!("{} {} via {} to {}", xt, t1, t2, t3)) }
    }
    for (k, (c, ex)) in stats { println!("{:6} {:50} e.g. {}", c, k, ex); }
}
