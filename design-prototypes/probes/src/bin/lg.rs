use logos::Logos;
#[derive(Logos, Debug, Clone, Copy, PartialEq, Eq)]
enum C {
    #[token("Da")] #[token("dalton")] #[token("daltons")] Dalton,
    #[token("da")] #[token("deca")] Deca,
    #[token("d")] #[token("deci")] Deci,
    #[token("l")] Litre,
    #[token("z")] #[token("zepto")] Zepto,
    #[token("Z")] #[token("zetta")] Zetta,
    #[token("eV")] Ev,
    #[token("V")] Volt,
    #[token("g")] Gram, #[token("gal")] #[token("gallon")] Gallon,
}
fn main() {
    for w in ["dal", "da", "ze", "zeV", "zep", "zepV", "zV", "z", "gall", "gal", "gallo", "gallonx", "dalt", "daltonsx"] {
        let mut lx = C::lexer(w);
        let t = lx.next();
        println!("{:8} -> {:?} slice={:?} remainder={:?}", w, t, lx.slice(), lx.remainder());
    }
}
