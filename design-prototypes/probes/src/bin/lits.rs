use anything::*;
use std::io::BufRead;
fn main() {
    std::panic::set_hook(Box::new(|_| {}));
    let db = Db::in_memory().unwrap();
    for line in std::io::stdin().lock().lines() {
        let s = line.unwrap();
        let a = match std::panic::catch_unwind(|| str::parse::<Rational>(&s)) { Ok(Ok(r)) => format!("{}/{}", r.numer(), r.denom()), Ok(Err(_)) => "ERR".into(), Err(_) => "PANIC".into() };
        let b = std::panic::catch_unwind(std::panic::AssertUnwindSafe(|| { let parsed = parse(&s).unwrap(); let mut d = Vec::new(); let res: Vec<_> = query(&parsed, &db, Options::default(), &mut d).collect(); if res.len() == 1 { match &res[0] { Ok(v) if v.unit.is_empty() => format!("{}/{}", v.value.numer(), v.value.denom()), Ok(_) => "UNIT".into(), Err(_) => "ERR".into() } } else { format!("N{}", res.len()) } })).unwrap_or("PANIC".into());
        println!("{}\t{}\t{}", s, a, b);
    }
}
