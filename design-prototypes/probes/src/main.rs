use anything::*;
fn main() {
    std::panic::set_hook(Box::new(|_| {}));
    let db = Db::in_memory().unwrap();
    let args: Vec<String> = std::env::args().skip(1).collect();
    for q in args {
        let r = std::panic::catch_unwind(std::panic::AssertUnwindSafe(|| {
        let parsed = parse(&q).unwrap();
        let mut d = Vec::new();
        let res: Vec<_> = query(&parsed, &db, Options::default().describe(), &mut d).collect();
        for r in res {
            match r {
                Ok(v) => println!("{:?} => {}/{} [{}]", q, v.value.numer(), v.value.denom(), v.unit),
                Err(e) => println!("{:?} => ERR {} @ {:?}", q, e, e.range()),
            }
        }
        for Description::Constant(s, c) in d { println!("   desc {:?} => {} {:?}", s, c.description, c.tokens); }
        }));
        if let Err(e) = r { println!("{:?} => PANIC {:?}", q, e.downcast_ref::<String>().map(|s| s.as_str()).or(e.downcast_ref::<&str>().copied())); }
    }
}
