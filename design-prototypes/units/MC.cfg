INIT Init
NEXT Next
INVARIANT FactorIff
INVARIANT MulExact
CHECK_DEADLOCK FALSE
CONSTANTS ZeroEntriesKept = FALSE
