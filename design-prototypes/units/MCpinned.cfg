INIT Init
NEXT Next

INVARIANT MulExact
CHECK_DEADLOCK FALSE
CONSTANTS ZeroEntriesKept = TRUE
