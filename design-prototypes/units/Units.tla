---- MODULE Units ----
EXTENDS Integers, Sequences, FiniteSets, TLC
CONSTANTS ZeroEntriesKept     \* pinned: Powers::insert leaves entries whose accumulated power is zero

P == 32749
RECURSIVE PowMod(_, _)
PowMod(b, e) == IF e = 0 THEN 1 ELSE LET h == PowMod(b, e \div 2) IN IF e % 2 = 0 THEN (h * h) % P ELSE (((h * h) % P) * b) % P
Inv(a) == PowMod(a % P, P - 2)
PowZ(b, e) == IF e >= 0 THEN PowMod(b % P, e) ELSE Inv(PowMod(b % P, 0 - e))
MulP(a, b) == (a * b) % P

\* ---- table (sub-vocabulary); Order is Rust's Ord on Unit: Derived by id, then the base variants ----
Order == <<"N", "l", "V", "min", "Bq", "W", "ft", "Pa", "J", "C", "kg", "m", "s", "A">>
Base == {"kg", "m", "s", "A"}
Derived == {"N", "l", "V", "min", "Bq", "W", "ft", "Pa", "J", "C"}
DimsOf(u) == CASE u = "N"  -> [kg |-> 1, m |-> 1, s |-> -2]
               [] u = "J"  -> [kg |-> 1, m |-> 2, s |-> -2]
               [] u = "W"  -> [kg |-> 1, m |-> 2, s |-> -3]
               [] u = "V"  -> [kg |-> 1, m |-> 2, s |-> -3, A |-> -1]
               [] u = "C"  -> [s |-> 1, A |-> 1]
               [] u = "Pa" -> [kg |-> 1, m |-> -1, s |-> -2]
               [] u = "Bq" -> [s |-> -1]
               [] u = "ft" -> [m |-> 1]
               [] u = "min" -> [s |-> 1]
               [] u = "l"  -> [m |-> 3]
\* conversion fraction (numer, denom) or none
Conv(u) == CASE u = "ft" -> <<3048, 10000>> [] u = "min" -> <<60, 1>> [] u = "l" -> <<1, 1000>> [] OTHER -> <<1, 1>>
F(u) == MulP(Conv(u)[1] % P, Inv(Conv(u)[2]))
Keys(f) == SelectSeq(Order, LAMBDA u : u \in DOMAIN f)
Put(f, k, v) == [x \in (DOMAIN f) \cup {k} |-> IF x = k THEN v ELSE f[x]]
Del(f, k) == [x \in (DOMAIN f) \ {k} |-> f[x]]
Empty == [x \in {} |-> 0]

\* ---- declarative ----
RECURSIVE SumDims(_, _, _)
Dim0 == [b \in Base |-> 0]
AddDims(d, u, pw) == IF u \in Base THEN [d EXCEPT ![u] = @ + pw]
                     ELSE [b \in Base |-> d[b] + (IF b \in DOMAIN DimsOf(u) THEN pw * DimsOf(u)[b] ELSE 0)]
SumDims(c, ks, j) == IF j > Len(ks) THEN Dim0 ELSE AddDims(SumDims(c, ks, j + 1), ks[j], c[ks[j]].pw)
Dims(c) == SumDims(c, Keys(c), 1)
RECURSIVE ScaleR(_, _, _)
ScaleR(c, ks, j) == IF j > Len(ks) THEN 1
                    ELSE MulP(MulP(PowZ(10, c[ks[j]].px * c[ks[j]].pw), PowZ(F(ks[j]), c[ks[j]].pw)), ScaleR(c, ks, j + 1))
Scale(c) == ScaleR(c, Keys(c), 1)

\* ---- operational: powers.rs / compound.rs ----
PowersInsert(pw, u, p) ==
  IF u \in DOMAIN pw THEN (IF ~ZeroEntriesKept /\ pw[u] + p = 0 THEN Del(pw, u) ELSE Put(pw, u, pw[u] + p))
  ELSE (IF ~ZeroEntriesKept /\ p = 0 THEN pw ELSE Put(pw, u, p))
RECURSIVE InsertDims(_, _, _, _, _)
InsertDims(pw, d, ks, j, p) == IF j > Len(ks) THEN pw ELSE InsertDims(PowersInsert(pw, ks[j], p * d[ks[j]]), d, ks, j + 1, p)
UnitPowers(pw, u, p) == IF u \in Derived THEN InsertDims(pw, DimsOf(u), Keys(DimsOf(u)), 1, p) ELSE PowersInsert(pw, u, p)
RECURSIVE BaseUnitsR(_, _, _, _)
BaseUnitsR(c, ks, j, pw) == IF j > Len(ks) THEN pw ELSE BaseUnitsR(c, ks, j + 1, UnitPowers(pw, ks[j], c[ks[j]].pw))
BasePowers(c) == BaseUnitsR(c, Keys(c), 1, Empty)
Ders(c) == SelectSeq(Keys(c), LAMBDA u : u \in Derived)

FactorOk(self, other) ==
  IF DOMAIN self = {} \/ DOMAIN other = {} THEN TRUE
  ELSE LET l == BasePowers(self)
           r == BasePowers(other) IN
       /\ Cardinality(DOMAIN l) = Cardinality(DOMAIN r)
       /\ \A n \in DOMAIN r : n \in DOMAIN l /\ l[n] = r[n]
FactorMult(self, other) == MulP(Scale(other), Inv(Scale(self)))   \* what the two loops multiply the value by

\* mul(): names, then reconstruct
Sign(x) == IF x > 0 THEN 1 ELSE IF x < 0 THEN -1 ELSE 0
Abs(x) == IF x < 0 THEN 0 - x ELSE x
RECURSIVE InnerMatch(_, _, _, _)
InnerMatch(s, base, cur, dec) ==      \* returns [ok, cur]
  IF cur = 0 THEN [ok |-> FALSE, cur |-> cur]
  ELSE LET p == base * cur IN
       IF Sign(p) = Sign(s) /\ Abs(p) <= Abs(s) THEN [ok |-> TRUE, cur |-> cur]
       ELSE InnerMatch(s, base, cur - dec, dec)
RECURSIVE BasesMatch(_, _, _, _, _, _)
BasesMatch(cur, dec, pws, ks, j, names) ==      \* Option<i32> as [some, v]
  IF j > Len(ks) THEN [some |-> TRUE, v |-> cur]
  ELSE IF ks[j] \notin DOMAIN names THEN [some |-> FALSE, v |-> 0]
  ELSE LET m == InnerMatch(names[ks[j]].pw, pws[ks[j]], cur, dec) IN
       IF m.ok THEN BasesMatch(m.cur, dec, pws, ks, j + 1, names) ELSE [some |-> FALSE, v |-> 0]
RECURSIVE Shed(_, _, _, _, _)
Shed(names, pws, ks, j, mp) ==
  IF j > Len(ks) THEN names
  ELSE LET u == ks[j] IN
       IF u \in DOMAIN names
       THEN LET np == names[u].pw - pws[u] * mp IN
            Shed(IF np = 0 THEN Del(names, u) ELSE Put(names, u, [pw |-> np, px |-> names[u].px]), pws, ks, j + 1, mp)
       ELSE Shed(names, pws, ks, j + 1, mp)
RECURSIVE Reconstruct(_, _, _, _)
Reconstruct(der, j, names, val) ==      \* der: seq of [u, pw, n]
  IF j > Len(der) THEN [names |-> names, val |-> val]
  ELSE LET e == der[j]
           pws == UnitPowers(Empty, e.u, 1)
           bm == BasesMatch(e.pw * e.n, Sign(e.pw * e.n), pws, Keys(pws), 1, names) IN
       IF ~bm.some THEN Reconstruct(der, j + 1, names, val)
       ELSE LET n1 == Shed(names, pws, Keys(pws), 1, bm.v)
                n2 == IF e.u \in DOMAIN n1 THEN Put(n1, e.u, [pw |-> n1[e.u].pw + bm.v, px |-> n1[e.u].px])
                      ELSE Put(n1, e.u, [pw |-> bm.v, px |-> 0])
                v2 == MulP(val, PowZ(F(e.u), 0 - bm.v)) IN
            Reconstruct(der, j + 1, n2, v2)
RECURSIVE MergeR(_, _, _, _, _)
MergeR(names, r, ks, j, n) ==
  IF j > Len(ks) THEN names
  ELSE LET u == ks[j] IN
       IF u \in DOMAIN names
       THEN LET np == names[u].pw + r[u] * n IN
            MergeR(IF np = 0 THEN Del(names, u) ELSE Put(names, u, [pw |-> np, px |-> 0]), r, ks, j + 1, n)
       ELSE MergeR(Put(names, u, [pw |-> r[u] * n, px |-> 0]), r, ks, j + 1, n)
Mul(self, other, n, lhs, rhs) ==
  IF DOMAIN self = {} THEN [unit |-> [u \in DOMAIN other |-> [pw |-> other[u].pw * n, px |-> other[u].px]], lhs |-> lhs, rhs |-> rhs]
  ELSE IF DOMAIN other = {} THEN [unit |-> self, lhs |-> lhs, rhs |-> rhs]
  ELSE LET lb == BasePowers(self)
           rb == BasePowers(other)
           n0 == [u \in DOMAIN lb |-> [pw |-> lb[u], px |-> 0]]
           n1 == MergeR(n0, rb, Keys(rb), 1, n)
           der == [i \in 1..Len(Ders(self)) |-> [u |-> Ders(self)[i], pw |-> self[Ders(self)[i]].pw, n |-> 1]]
                  \o [i \in 1..Len(Ders(other)) |-> [u |-> Ders(other)[i], pw |-> other[Ders(other)[i]].pw, n |-> n]]
           rc == Reconstruct(der, 1, n1, MulP(lhs, Scale(self))) IN
       [unit |-> rc.names, lhs |-> rc.val, rhs |-> MulP(rhs, Scale(other))]

\* ---- model: pairs of compounds ----
Pws == {-2, -1, 1, 2}
One(u, pw, px) == [x \in {u} |-> [pw |-> pw, px |-> px]]
Two(u, pu, v, pv) == [x \in {u, v} |-> IF x = u THEN [pw |-> pu, px |-> 0] ELSE [pw |-> pv, px |-> 0]]
Units == Base \cup Derived
Singles == {One(u, pw, 0) : u \in Units, pw \in Pws} \cup {One("m", pw, 3) : pw \in Pws} \cup {One("N", pw, 3) : pw \in Pws}
Doubles == {Two(u, pu, v, pv) : u \in Units, v \in Units, pu \in Pws, pv \in {-1, 1, 2}} 
Compounds == Singles \cup {c \in Doubles : Cardinality(DOMAIN c) = 2}
VARIABLES a, b
Init == a \in Compounds /\ b \in Singles
Next == UNCHANGED <<a, b>>
NoZero(c) == \A u \in DOMAIN c : c[u].pw # 0
\* C02
FactorIff == FactorOk(a, b) <=> (Dims(a) = Dims(b))
\* C04 / C13
MulExact == \A n \in {1, -1} :
  LET r == Mul(a, b, n, 1, 1)
      val == IF n = 1 THEN MulP(r.lhs, r.rhs) ELSE MulP(r.lhs, Inv(r.rhs)) IN
  /\ NoZero(r.unit)
  /\ Dims(r.unit) = [x \in Base |-> Dims(a)[x] + n * Dims(b)[x]]
  /\ MulP(val, Scale(r.unit)) = MulP(Scale(a), PowZ(Scale(b), n))
====
