SPECIFICATION Spec
INVARIANT Deterministic
CHECK_DEADLOCK FALSE
CONSTANTS NDocs = 4
 Threads = {1,2}
