---- MODULE IndexBuild ----
EXTENDS Naturals, Sequences, FiniteSets, TLC
CONSTANTS NDocs, Threads
Docs == 1..NDocs
VARIABLES next,      \* next document (shipped order) still in the channel
          seg,       \* seg[t] = sequence of documents thread t has put into its own segment
          published  \* <<>> before commit; after commit the segments in the order the searcher sees them
vars == <<next, seg, published>>
Init == next = 1 /\ seg = [t \in Threads |-> <<>>] /\ published = <<>>
Take(t) == /\ next <= NDocs /\ published = <<>>
           /\ seg' = [seg EXCEPT ![t] = Append(@, next)] /\ next' = next + 1 /\ UNCHANGED published
Perms(S) == {f \in [1..Cardinality(S) -> S] : \A i, j \in 1..Cardinality(S) : i # j => f[i] # f[j]}
Commit == /\ next > NDocs /\ published = <<>>
          /\ LET ne == {t \in Threads : seg[t] # <<>>} IN
             \E order \in Perms(ne) : published' = [i \in 1..Cardinality(ne) |-> seg[order[i]]]
          /\ UNCHANGED <<next, seg>>
Next == (\E t \in Threads : Take(t)) \/ Commit
Spec == Init /\ [][Next]_vars
\* document order seen by the searcher = concatenation of segments; ties are won by the lowest address
RECURSIVE Flat(_)
Flat(ss) == IF ss = <<>> THEN <<>> ELSE Head(ss) \o Flat(Tail(ss))
Winner(T) == LET f == Flat(published) IN f[CHOOSE i \in 1..Len(f) : f[i] \in T /\ \A j \in 1..(i-1) : f[j] \notin T]
Min(T) == CHOOSE x \in T : \A y \in T : x <= y
\* C14 at model level: for every tie set the winner is a function of the data only
Deterministic == published # <<>> => \A T \in (SUBSET Docs \ {{}}) : Winner(T) = Min(T)
====
