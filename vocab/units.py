"""Unit vocabulary oracle for C05 / C09 (and the dimension vectors used everywhere).

Hand-transcribed from:  [SI]   BIPM, The International System of Units, 9th ed. (2019)
                        [YP]   International yard and pound agreement (1959): 1 yd = 0.9144 m, 1 lb = 0.45359237 kg
                        [HB44] NIST Handbook 44, Appendix C (US customary measure)
                        [IMP]  Weights and Measures Act 1985 (imperial series), for words the tool documents as imperial
                        [DOC]  the repository's own documentation, for the few units outside those standards
NOT derived from src/units or tools/gen/data.toml; only the list of *names* is cross-checked
against data.toml (bin/gen_tables) so that every documented name is covered.

Every entry:  key: (names, dims, factor, source [, alternatives])
  dims    exponents of (kg, m, s, A, K, mol, cd, B)
  factor  exact value of 1 <unit> in SI base units, as a fraction string "n/d" or decimal
  alternatives  other standard meanings of the same word(s) (each acceptable), or a
                rounding rule ("round", digits) for units with no exact decimal.
"""
from fractions import Fraction as F

def D(kg=0, m=0, s=0, A=0, K=0, mol=0, cd=0, B=0):
    return dict(kg=kg, m=m, s=s, A=A, K=K, mol=mol, cd=cd, B=B)

IN = F(254, 10000)            # [YP] inch = 0.0254 m exactly
FT = 12 * IN
YD = 3 * FT                   # = 0.9144 m [YP]
MI = 1760 * YD
LB = F(45359237, 100000000)   # [YP]
GAL = 231 * IN ** 3           # [HB44] US gallon = 231 cubic inches
NMI = F(1852)                 # [SI] table 8 / international nautical mile
YEAR = F(31557600)            # [DOC] Julian year 365.25 d

BASE = {
    # key        names                                   dims      prefix bias of the name
    "Second":   (["s", "sec", "second", "seconds"], D(s=1), 0),
    "Meter":    (["m", "metre", "meter", "meters"], D(m=1), 0),
    "KiloGram": (["g", "gram"], D(kg=1), -3),            # the *name* is the gram = 10^-3 kg
    "Ampere":   (["A", "ampere", "amperes"], D(A=1), 0),
    "Kelvin":   (["K", "kelvin", "kelvins"], D(K=1), 0),
    "Mole":     (["mol", "mols", "mole", "moles"], D(mol=1), 0),
    "Candela":  (["cd", "candela", "candelas"], D(cd=1), 0),
    "Byte":     (["B", "byte"], D(B=1), 0),
}

DERIVED = {
    # ---- time [SI table 8] and calendar units [DOC]
    "MINUTE":   (["minute", "minutes", "min", "mins"], D(s=1), F(60), "SI"),
    "HOUR":     (["h", "hr", "hour", "hours"], D(s=1), F(3600), "SI"),
    "DAY":      (["dy", "day", "days"], D(s=1), F(86400), "SI"),
    "WEEK":     (["wk", "week", "weeks"], D(s=1), F(604800), "DOC"),
    "MONTH":    (["mth", "mths", "month", "months"], D(s=1), YEAR / 12, "DOC"),
    "YEAR":     (["y", "yr", "yrs", "year", "years"], D(s=1), YEAR, "DOC"),
    "DECADE":   (["decade", "decades"], D(s=1), 10 * YEAR, "DOC"),
    "CENTURY":  (["century", "centuries"], D(s=1), 100 * YEAR, "DOC"),
    "MILLENIUM": (["M", "millenium", "milleniums", "millenia"], D(s=1), 1000 * YEAR, "DOC"),
    # ---- mass
    "TONNE":    (["ton", "tons", "tonne", "tonnes"], D(kg=1), F(1000), "SI",
                 [("short ton HB44", 2000 * LB), ("long ton IMP", 2240 * LB)]),
    "DALTON":   (["Da", "dalton", "daltons"], D(kg=1), F("1.66053906660e-27"), "SI", [("round", 12)]),
    "GRAIN":    (["gr", "grain", "grains"], D(kg=1), LB / 7000, "YP"),
    "DRACHM":   (["dr", "drachm", "drachms"], D(kg=1), LB / 256, "IMP"),
    "OUNCE":    (["oz", "ounce", "ounces"], D(kg=1), LB / 16, "YP"),
    "POUND":    (["lb", "pound", "pounds"], D(kg=1), LB, "YP"),
    "STONE":    (["st", "stone", "stones"], D(kg=1), 14 * LB, "IMP"),
    "QUARTER":  (["qr", "qtr", "quarter", "quarters"], D(kg=1), 28 * LB, "IMP"),
    "HUNDREDWEIGHT": (["cwt", "hundredweight", "hundredweights"], D(kg=1), 112 * LB, "IMP",
                      [("short hundredweight HB44", 100 * LB)]),
    "TON":      (["t"], D(kg=1), 2240 * LB, "IMP", [("tonne SI", F(1000)), ("short ton HB44", 2000 * LB)]),
    "SLUG":     (["slug", "slugs"], D(kg=1), LB * F("9.80665") / FT, "HB44", [("round", 10)]),
    # ---- volume [SI] litre, [HB44] US liquid measure
    "LITRE":    (["l", "L", "litre", "litres"], D(m=3), F(1, 1000), "SI"),
    "CUBIC_CENTIMETER": (["cc"], D(m=3), F(1, 1000000), "SI"),
    "GALLON":   (["gal", "gals", "gallon", "gallons"], D(m=3), GAL, "HB44"),
    "PINT":     (["pint", "pints"], D(m=3), GAL / 8, "HB44"),
    "QUART":    (["quart", "quarts"], D(m=3), GAL / 4, "HB44"),
    "CUP":      (["cup", "cups"], D(m=3), GAL / 16, "HB44"),
    "GILL":     (["gill", "gills"], D(m=3), GAL / 32, "HB44"),
    "FLUID_OUNCE": (["floz", "flozs"], D(m=3), GAL / 128, "HB44"),
    "TABLE_SPOON": (["tbsp", "tbsps", "tablespoon", "tablespoons"], D(m=3), GAL / 256, "HB44"),
    "TEA_SPOON": (["tsp", "tsps", "teaspoon", "teaspoons"], D(m=3), GAL / 768, "HB44"),
    # ---- area
    "HECTARE":  (["ha", "hectare", "hectares"], D(m=2), F(10000), "SI"),
    "PERCH":    (["perch", "perches"], D(m=2), (F(11, 2) * YD) ** 2, "IMP"),
    "ROOD":     (["rood", "roods"], D(m=2), 1210 * YD ** 2, "IMP"),
    "ACRE":     (["acre", "acres"], D(m=2), 4840 * YD ** 2, "HB44"),
    # ---- kinematics [DOC]: bare dimension carriers, and standard gravity [SI]
    "ACCELERATION": (["a", "acc", "acceleration"], D(m=1, s=-2), F(1), "DOC"),
    "VELOCITY": (["v", "vel", "velocity"], D(m=1, s=-1), F(1), "DOC"),
    "GFORCE":   (["gforce", "g-force"], D(m=1, s=-2), F("9.80665"), "SI"),
    "SPECIFIC_IMPULSE": (["sp"], D(s=1), F(1), "DOC"),
    # ---- SI derived units with special names [SI table 4]
    "NEWTON":   (["N", "newton", "newtons"], D(kg=1, m=1, s=-2), F(1), "SI"),
    "PASCAL":   (["Pa", "pascal", "pascals"], D(kg=1, m=-1, s=-2), F(1), "SI"),
    "JOULE":    (["J", "joule"], D(kg=1, m=2, s=-2), F(1), "SI"),
    "BTU":      (["btu"], D(kg=1, m=2, s=-2), F("1055.05585262"), "IT", [("round", 4)]),
    "ELECTRONVOLT": (["eV", "electronvolt", "electronvolts"], D(kg=1, m=2, s=-2), F("1.602176634e-19"), "SI"),
    "WATT":     (["W", "watt", "watts"], D(kg=1, m=2, s=-3), F(1), "SI"),
    "COULOMB":  (["C", "coulomb", "coulombs"], D(s=1, A=1), F(1), "SI"),
    "VOLT":     (["V", "volt", "volts"], D(kg=1, m=2, s=-3, A=-1), F(1), "SI"),
    "FARAD":    (["F", "farad", "farads"], D(kg=-1, m=-2, s=4, A=2), F(1), "SI"),
    "OHM":      (["Ω", "ohm", "ohms"], D(kg=1, m=2, s=-3, A=-2), F(1), "SI"),
    "SIEMENS":  (["S", "siemens"], D(kg=-1, m=-2, s=3, A=2), F(1), "SI"),
    "WEBER":    (["Wb", "weber", "webers"], D(kg=1, m=2, s=-2, A=-1), F(1), "SI"),
    "TESLA":    (["T", "tesla", "teslas"], D(kg=1, s=-2, A=-1), F(1), "SI"),
    "HENRY":    (["H", "henry", "henrys", "henries"], D(kg=1, m=2, s=-2, A=-2), F(1), "SI"),
    "LUMEN":    (["lm", "lumen", "lumens"], D(cd=1), F(1), "SI"),
    "LUX":      (["lx", "lux"], D(cd=1, m=-2), F(1), "SI"),
    "BECQUEREL": (["Bq", "becquerel", "becquerels"], D(s=-1), F(1), "SI"),
    "GRAY":     (["Gy", "gray", "grays"], D(m=2, s=-2), F(1), "SI"),
    "SIEVERT":  (["Sv", "sievert", "sieverts"], D(m=2, s=-2), F(1), "SI"),
    "KATAL":    (["kat", "katal", "katals"], D(mol=1, s=-1), F(1), "SI"),
    # ---- speed
    "LIGHT_SPEED": (["c"], D(m=1, s=-1), F(299792458), "SI"),
    "KNOT":     (["kt", "knot", "knots"], D(m=1, s=-1), NMI / 3600, "SI"),
    # ---- length
    "AU":       (["au"], D(m=1), F(149597870700), "SI"),
    "FATHOM":   (["ftm", "fathom", "fathoms"], D(m=1), 6 * FT, "HB44", [("nautical-series fathom IMP/DOC, 1/1000 nmi", NMI / 1000)]),
    "CABLE":    (["cable", "cables"], D(m=1), NMI / 10, "IMP", [("100 fathoms IMP", 600 * FT), ("US cable 120 fathoms HB44", 720 * FT)]),
    "NAUTICAL_MILE": (["NM", "nmi"], D(m=1), NMI, "SI"),
    "LINK":     (["link", "links"], D(m=1), 22 * YD / 100, "HB44"),
    "ROD":      (["rd", "rod", "rods"], D(m=1), F(11, 2) * YD, "HB44"),
    "THOU":     (["th", "thou", "thous"], D(m=1), IN / 1000, "IMP"),
    "BARLEYCORN": (["Bc", "barleycorn", "barleycorns"], D(m=1), IN / 3, "IMP"),
    "INCH":     (["in", "inch", "inches"], D(m=1), IN, "YP"),
    "HAND":     (["hand", "hands"], D(m=1), 4 * IN, "HB44"),
    "FOOT":     (["ft", "feet", "feets"], D(m=1), FT, "YP"),
    "YARD":     (["yd", "yard", "yards"], D(m=1), YD, "YP"),
    "CHAIN":    (["ch", "chain", "chains"], D(m=1), 22 * YD, "HB44"),
    "FURLONG":  (["fur", "furlong", "furlongs"], D(m=1), 220 * YD, "HB44"),
    "MILE":     (["mi", "mile", "miles"], D(m=1), MI, "YP"),
    "LEAGUE":   (["lea", "league", "leagues"], D(m=1), 3 * MI, "IMP"),
    # ---- temperature scales [SI]: T/K = t/degC + 273.15 ; t/degC = (t/degF - 32) * 5/9
    "CELSIUS":  (["°C", "celsius"], D(K=1), F(1), "SI"),
    "FAHRENHEIT": (["°F", "fahrenheit"], D(K=1), F(5, 9), "HB44"),
}
OFFSET = {"CELSIUS": F("273.15"), "FAHRENHEIT": F("273.15") - 32 * F(5, 9)}   # K = factor * x + offset

PREFIXES = [   # [SI table 7]
    ("Y", "yotta", 24), ("Z", "zetta", 21), ("E", "exa", 18), ("P", "peta", 15), ("T", "tera", 12), ("G", "giga", 9),
    ("M", "mega", 6), ("k", "kilo", 3), ("h", "hecto", 2), ("da", "deca", 1), ("d", "deci", -1), ("c", "centi", -2),
    ("m", "milli", -3), ("μ", "micro", -6), ("n", "nano", -9), ("p", "pico", -12), ("f", "femto", -15),
    ("a", "atto", -18), ("z", "zepto", -21), ("y", "yocto", -24),
]

# Defining relations of the systems transcribed above: each value is reachable both through
# the standard's decimal and through such a relation; gen_tables refuses to generate the
# TLA+ table unless all of them hold.
def relations():
    f = lambda k: DERIVED[k][2]
    return [
        ("12 in = 1 ft", 12 * f("INCH") == f("FOOT")),
        ("3 ft = 1 yd", 3 * f("FOOT") == f("YARD")),
        ("1 yd = 0.9144 m", f("YARD") == F("0.9144")),
        ("1760 yd = 1 mi", 1760 * f("YARD") == f("MILE")),
        ("1 mi = 1609.344 m", f("MILE") == F("1609.344")),
        ("8 fur = 1 mi", 8 * f("FURLONG") == f("MILE")),
        ("10 ch = 1 fur", 10 * f("CHAIN") == f("FURLONG")),
        ("4 rd = 1 ch", 4 * f("ROD") == f("CHAIN")),
        ("100 links = 1 ch", 100 * f("LINK") == f("CHAIN")),
        ("3 mi = 1 league", 3 * f("MILE") == f("LEAGUE")),
        ("1 hand = 0.1016 m", f("HAND") == F("0.1016")),
        ("3 Bc = 1 in", 3 * f("BARLEYCORN") == f("INCH")),
        ("1000 thou = 1 in", 1000 * f("THOU") == f("INCH")),
        ("7000 gr = 1 lb", 7000 * f("GRAIN") == f("POUND")),
        ("1 gr = 64.79891 mg", f("GRAIN") == F("0.00006479891")),
        ("16 oz = 1 lb", 16 * f("OUNCE") == f("POUND")),
        ("16 dr = 1 oz", 16 * f("DRACHM") == f("OUNCE")),
        ("14 lb = 1 st", f("STONE") == F("6.35029318")),
        ("2 st = 1 qr", 2 * f("STONE") == f("QUARTER")),
        ("4 qr = 1 cwt", 4 * f("QUARTER") == f("HUNDREDWEIGHT")),
        ("20 cwt = 1 long ton", 20 * f("HUNDREDWEIGHT") == f("TON")),
        ("1 long ton = 1016.0469088 kg", f("TON") == F("1016.0469088")),
        ("1 gal = 3.785411784 l", f("GALLON") == F("3.785411784") * f("LITRE")),
        ("4 qt = 1 gal", 4 * f("QUART") == f("GALLON")),
        ("2 pt = 1 qt", 2 * f("PINT") == f("QUART")),
        ("1 pt = 0.473176473 l", f("PINT") == F("0.473176473") * f("LITRE")),
        ("2 cups = 1 pt", 2 * f("CUP") == f("PINT")),
        ("2 gills = 1 cup", 2 * f("GILL") == f("CUP")),
        ("4 floz = 1 gill", 4 * f("FLUID_OUNCE") == f("GILL")),
        ("2 tbsp = 1 floz", 2 * f("TABLE_SPOON") == f("FLUID_OUNCE")),
        ("3 tsp = 1 tbsp", 3 * f("TEA_SPOON") == f("TABLE_SPOON")),
        ("1 acre = 4046.8564224 m2", f("ACRE") == F("4046.8564224")),
        ("4 roods = 1 acre", 4 * f("ROOD") == f("ACRE")),
        ("40 perches = 1 rood", 40 * f("PERCH") == f("ROOD")),
        ("1 acre = 1 fur x 1 ch", f("ACRE") == f("FURLONG") * f("CHAIN")),
        ("1 kt = 1 nmi/h", f("KNOT") * f("HOUR") == f("NAUTICAL_MILE")),
        ("1 cc = 1 cm3", f("CUBIC_CENTIMETER") == F(1, 100) ** 3),
        ("1 l = 1 dm3", f("LITRE") == F(1, 10) ** 3),
        ("1 slug = 14.59390 kg (HB44)", abs(f("SLUG") - F("14.59390")) < F("0.00001")),
        ("eV = e x 1 V", f("ELECTRONVOLT") == F("1.602176634e-19")),
        ("0 degC = 273.15 K", OFFSET["CELSIUS"] == F("273.15")),
        ("32 degF = 0 degC", 32 * f("FAHRENHEIT") + OFFSET["FAHRENHEIT"] == F("273.15")),
        ("212 degF = 100 degC", 212 * f("FAHRENHEIT") + OFFSET["FAHRENHEIT"] == F("373.15")),
        ("1 d = 24 h = 1440 min", f("DAY") == 24 * f("HOUR") == 1440 * f("MINUTE")),
        ("1 yr = 365.25 d", f("YEAR") == F("365.25") * f("DAY")),
    ]


def sig_digits_round_ok(observed, exact, min_digits):
    """observed is a correct rounding of exact at the precision observed is given with"""
    observed, exact = F(observed), F(exact)
    if observed == exact:
        return True
    if observed <= 0:
        return False
    # significant digits of observed: shortest decimal that reproduces it
    import decimal
    decimal.getcontext().prec = 60
    d = decimal.Decimal(observed.numerator) / decimal.Decimal(observed.denominator)
    if F(str(d)) != observed:
        return False          # not a terminating decimal with < 60 digits
    t = d.normalize().as_tuple()
    nd = len(t.digits)
    if nd < min_digits:
        return False
    e = decimal.Decimal(exact.numerator) / decimal.Decimal(exact.denominator)
    q = decimal.Decimal(1).scaleb(t.exponent)
    lo = e.quantize(q, rounding=decimal.ROUND_FLOOR)
    hi = e.quantize(q, rounding=decimal.ROUND_CEILING)
    return d in (lo, hi)
