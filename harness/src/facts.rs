//! Shipped facts, decoded from /repo/db independently of the library's loader.

use crate::common::*;
use serde_json::json;

/// `conform facts-list --repo /repo --out FILE`: one line per shipped constant: file, position, search words, description
pub fn list(args: &[String]) -> i32 {
    let repo = arg_value(args, "--repo").unwrap_or("/repo".into());
    let outp = arg_value(args, "--out").expect("--out");
    let mut out = Out::create(&outp);
    let shipped = shipped_constants(&repo);
    for (i, (file, c)) in shipped.iter().enumerate() {
        out.line(&json!({"i": i + 1, "file": file, "tokens": c.tokens, "description": c.description, "source": c.source}));
    }
    out.finish();
    println!("{}", json!({"constants": shipped.len()}));
    0
}
