//! C12: the property's own quantifier -- all strings up to a length over a 40-symbol alphabet --
//! run natively as a compiled monitor of the specification's invariants (Lexer.Tiles,
//! Parser.Lossless).  The monitor decides nothing on its own: every string it flags and one
//! representative string per distinct token-kind shape are handed to TLC (Trace_Parse.tla).

use crate::common::*;
use anything::syntax::lexer::Lexer;
use anything::syntax::parser::Parser;
use serde_json::json;
use std::collections::HashSet;
use std::sync::atomic::{AtomicU64, Ordering};
use std::sync::{Arc, Mutex};

pub const ALPHABET: [&str; 40] = [
    "0", "1", "9", ".", "e", "E", "+", "-", "*", "/", "^", "%", "(", ")", "{", "}", ",", " ", "\t", "a", "t", "o", "m", "k", "Z",
    "'", "°", "é", "日", "😀", "\u{a0}", "\u{2003}", "μ", "Ω", "_", "\"", "=", "\n", "#", "x",
];

/// None if the string is handled losslessly, otherwise what is wrong
pub fn monitor(s: &str, shape: &mut Vec<u8>) -> Option<String> {
    shape.clear();
    let mut toks = Vec::new();
    let mut off = 0usize;
    let mut lexer = Lexer::new(s);
    let budget = s.len() + 2;
    loop {
        if toks.len() > budget {
            return Some("the lexer produces more tokens than the input has bytes".into());
        }
        match lexer.next() {
            Some(t) => {
                if t.len == 0 {
                    return Some(format!("empty token {:?} at byte {}", t.kind, off));
                }
                off += t.len;
                if off > s.len() || !s.is_char_boundary(off) {
                    return Some(format!("token {:?} ends at byte {} which is not a character boundary inside the input", t.kind, off));
                }
                shape.push(t.kind as u8);
                toks.push((t.kind, t.len));
            }
            None => break,
        }
    }
    if off != s.len() {
        return Some(format!("tokens cover {} of {} bytes", off, s.len()));
    }
    let tree = match Parser::new(s).parse_root() {
        Ok(t) => t,
        Err(e) => return Some(format!("no tree: {}", e)),
    };
    let mut i = 0usize;
    let mut pos = 0usize;
    for n in tree.walk() {
        let sp = n.span();
        if !n.has_children() && sp.start != sp.end {
            if i >= toks.len() {
                return Some("the tree has more leaves than there are tokens".into());
            }
            let (k, len) = toks[i];
            if *n.value() != k || (sp.end - sp.start) as usize != len || sp.start as usize != pos {
                return Some(format!("leaf {} of the tree is {:?}[{}..{}], token {} is {:?} of {} bytes at {}", i, n.value(), sp.start, sp.end, i, k, len, pos));
            }
            pos += len;
            i += 1;
        }
    }
    if i != toks.len() {
        return Some(format!("the tree has {} leaves for {} tokens", i, toks.len()));
    }
    None
}

/// `conform c12-sweep --len N --out FILE [--max-shapes M] [--threads T]`
pub fn sweep(args: &[String]) -> i32 {
    quiet_panics();
    let maxlen = arg_num(args, "--len", 4) as usize;
    let outp = arg_value(args, "--out").expect("--out");
    let max_shapes = arg_num(args, "--max-shapes", 20000) as usize;
    let threads = arg_num(args, "--threads", 14) as usize;
    let total = Arc::new(AtomicU64::new(0));
    let failures = Arc::new(Mutex::new(Vec::<(String, String)>::new()));
    let shapes = Arc::new(Mutex::new((HashSet::<Vec<u8>>::new(), Vec::<String>::new())));
    let current: Arc<Vec<Mutex<(String, u64)>>> = Arc::new((0..threads).map(|_| Mutex::new((String::new(), 0))).collect());
    let done = Arc::new(AtomicU64::new(0));
    // work items: all prefixes of length min(2, maxlen)
    let mut items: Vec<String> = Vec::new();
    for a in ALPHABET.iter() {
        if maxlen >= 2 {
            for b in ALPHABET.iter() {
                items.push(format!("{}{}", a, b));
            }
        }
    }
    let items = Arc::new(items);
    let next = Arc::new(AtomicU64::new(0));
    let mut handles = Vec::new();
    for th in 0..threads {
        let (total, failures, shapes, items, next, current) = (total.clone(), failures.clone(), shapes.clone(), items.clone(), next.clone(), current.clone());
        let done = done.clone();
        handles.push(std::thread::spawn(move || {
            let mut shape = Vec::new();
            let mut local_shapes: HashSet<Vec<u8>> = HashSet::new();
            let mut count = 0u64;
            let mut check = |s: &str, count: &mut u64| {
                *count += 1;
                if *count % 4096 == 0 {
                    let mut c = current[th].lock().unwrap();
                    c.0.clear();
                    c.0.push_str(s);
                    c.1 += 1;
                }
                let r = std::panic::catch_unwind(std::panic::AssertUnwindSafe(|| monitor(s, &mut shape)));
                let bad = match r {
                    Ok(None) => None,
                    Ok(Some(w)) => Some(w),
                    Err(e) => Some(format!("panic: {}", panic_text(e))),
                };
                if let Some(w) = bad {
                    let mut f = failures.lock().unwrap();
                    if f.len() < 200 {
                        f.push((s.to_string(), w));
                    }
                } else if !local_shapes.contains(&shape) {
                    local_shapes.insert(shape.clone());
                    let mut g = shapes.lock().unwrap();
                    if g.1.len() < max_shapes && g.0.insert(shape.clone()) {
                        g.1.push(s.to_string());
                    }
                }
            };
            if th == 0 {
                // lengths 0 and 1
                check("", &mut count);
                for a in ALPHABET.iter() {
                    check(a, &mut count);
                }
            }
            loop {
                let i = next.fetch_add(1, Ordering::SeqCst) as usize;
                if i >= items.len() {
                    break;
                }
                // every extension of the prefix up to maxlen (depth-first, odometer)
                let prefix = &items[i];
                {
                    // progress mark at the start of every work item, so that a hang inside the very first item is seen too
                    let mut c = current[th].lock().unwrap();
                    c.0.clear();
                    c.0.push_str(prefix);
                    c.1 += 1;
                }
                check(prefix, &mut count);
                let extra = maxlen.saturating_sub(2);
                let mut buf = String::new();
                for len in 1..=extra {
                    let mut idx = vec![0usize; len];
                    loop {
                        buf.clear();
                        buf.push_str(prefix);
                        for &j in &idx {
                            buf.push_str(ALPHABET[j]);
                        }
                        check(&buf, &mut count);
                        let mut p = len;
                        loop {
                            if p == 0 {
                                break;
                            }
                            p -= 1;
                            idx[p] += 1;
                            if idx[p] < ALPHABET.len() {
                                break;
                            }
                            idx[p] = 0;
                            if p == 0 {
                                p = usize::MAX;
                                break;
                            }
                        }
                        if p == usize::MAX {
                            break;
                        }
                    }
                }
            }
            total.fetch_add(count, Ordering::SeqCst);
            done.fetch_add(1, Ordering::SeqCst);
        }));
    }
    // watchdog: a worker stuck on one string for 20 s means the lexer or parser does not terminate
    let mut last: Vec<(u64, std::time::Instant)> = (0..threads).map(|_| (0, std::time::Instant::now())).collect();
    let mut stuck: Option<String> = None;
    while done.load(Ordering::SeqCst) < threads as u64 {
        std::thread::sleep(std::time::Duration::from_millis(500));
        for th in 0..threads {
            let c = current[th].lock().unwrap();
            if c.1 != last[th].0 {
                last[th] = (c.1, std::time::Instant::now());
            } else if last[th].1.elapsed().as_secs() > 60 && stuck.is_none() && !handles[th].is_finished() {
                stuck = Some(c.0.clone());
            }
        }
        if stuck.is_some() {
            break;
        }
    }
    if stuck.is_none() {
        for h in handles {
            let _ = h.join();
        }
    }
    let mut out = Out::create(&outp);
    let f = failures.lock().unwrap();
    for (s, w) in f.iter() {
        out.line(&json!({"kind": "flagged", "text": s, "what": w}));
    }
    if let Some(s) = &stuck {
        out.line(&json!({"kind": "stuck", "text": s, "what": "no progress for 60 s among the strings that start like this one: the lexer or parser does not terminate"}));
    }
    let g = shapes.lock().unwrap();
    for s in g.1.iter() {
        out.line(&json!({"kind": "shape", "text": s}));
    }
    out.finish();
    println!("{}", json!({"strings": total.load(Ordering::SeqCst), "flagged": f.len(), "shapes": g.0.len(), "shape_samples": g.1.len(),
                          "alphabet": ALPHABET.len(), "maxlen": maxlen, "stuck": stuck.is_some()}));
    if stuck.is_some() {
        std::process::exit(0);
    }
    0
}
