//! C14: record a history of sessions (repeated in-memory builds, first on-disk build,
//! reopen, rebuild after the stored hash changed) with the lookup hook exposing the tie
//! sets, as a trace for spec/Trace_IndexBuild.tla.

use crate::common::*;
use anything::Db;
use serde_json::{json, Value};
use std::collections::{BTreeMap, BTreeSet};
use std::path::PathBuf;

pub fn typable_word(w: &str) -> bool {
    !w.is_empty() && w != "to" && w.chars().all(|c| c.is_ascii_lowercase())
}

/// phrases: every fact's own words, every single token, and 1..3-letter prefixes of tokens
pub fn phrases(shipped: &[(String, RawConstant)], rng: &mut Rng, cap: usize) -> Vec<String> {
    let mut full = BTreeSet::new();
    let mut single = BTreeSet::new();
    let mut prefixes = BTreeSet::new();
    for (_, c) in shipped {
        let toks: Vec<&str> = c.tokens.iter().map(|s| s.as_str()).collect();
        if toks.is_empty() || !toks.iter().all(|w| typable_word(w)) {
            continue;
        }
        full.insert(toks.join(" "));
        for t in &toks {
            single.insert(t.to_string());
            for n in 1..=3 {
                if t.len() >= n {
                    let p = &t[..n];
                    if p != "to" {
                        prefixes.insert(p.to_string());
                    }
                }
            }
        }
        if toks.len() >= 2 {
            // a deliberately ambiguous two-word query: first word plus a prefix of the second
            prefixes.insert(format!("{} {}", toks[0], &toks[1][..toks[1].len().min(2)]));
        }
    }
    let mut all: Vec<String> = full.into_iter().collect();
    let mut rest: Vec<String> = single.union(&prefixes).cloned().collect();
    // seeded shuffle
    for v in [&mut all, &mut rest] {
        for i in (1..v.len()).rev() {
            let j = rng.below(i as u64 + 1) as usize;
            v.swap(i, j);
        }
    }
    let _ = cap;
    all.extend(rest);
    all
}

/// best-score tie set of a single-phrase query, from the lookup hook: (top list, number of documents sharing the best score)
fn tie_size(db: &Db, q: &str) -> Option<usize> {
    let o = run_query(db, q, false);
    let lk: Vec<Value> = o.events.iter().filter_map(|e| serde_json::from_str::<Value>(e).ok()).filter(|v| v["ev"] == "lookup").collect();
    if lk.len() != 1 || o.results.len() != 1 || o.results[0].is_err() {
        return None;
    }
    let top = lk[0]["top"].as_array().cloned().unwrap_or_default();
    if top.is_empty() {
        return None;
    }
    let best = top[0][0].as_str().unwrap().to_string();
    Some(top.iter().filter(|t| t[0].as_str() == Some(best.as_str())).count())
}

/// choose the query set: every ambiguous phrase first (several documents share the best score in a
/// reference build), then unambiguous ones, up to `cap`; only phrases that are answered at all
fn select(db: &Db, candidates: Vec<String>, cap: usize) -> Vec<String> {
    let mut ties = Vec::new();
    let mut plain = Vec::new();
    let mut seen = BTreeSet::new();
    for q in candidates {
        if !seen.insert(q.clone()) {
            continue;
        }
        match tie_size(db, &q) {
            Some(n) if n > 1 => ties.push(q),
            Some(_) => plain.push(q),
            None => {}
        }
    }
    let keep_ties = ties.len().min(cap * 3 / 4);
    let mut out: Vec<String> = ties.into_iter().take(keep_ties).collect();
    let room = cap - out.len();
    out.extend(plain.into_iter().take(room));
    out.sort();
    out
}

struct Session {
    kind: &'static str,
}

fn fnv(bytes: &[u8]) -> u64 {
    let mut hash = 0xcbf29ce484222325u64;
    for b in bytes {
        hash ^= *b as u64;
        hash = hash.wrapping_mul(0x100000001b3);
    }
    hash
}

/// the live documents of an on-disk index, segment by segment in searcher order, as shipped positions
/// (read with tantivy directly, not through the library under test)
fn layout(index_dir: &std::path::Path, key_pos: &BTreeMap<String, usize>) -> Option<Vec<Vec<usize>>> {
    let index = tantivy::Index::open_in_dir(index_dir).ok()?;
    let field = index.schema().get_field("data")?;
    let reader = index.reader().ok()?;
    let searcher = reader.searcher();
    let mut out = Vec::new();
    for seg in searcher.segment_readers() {
        let store = seg.get_store_reader(0).ok()?;
        let mut docs = Vec::new();
        for d in 0..seg.max_doc() {
            if seg.is_deleted(d) {
                continue;
            }
            let doc = store.get(d).ok()?;
            if let Some(tantivy::schema::Value::Bytes(b)) = doc.get_first(field) {
                docs.push(*key_pos.get(&format!("{:016x}", fnv(b))).unwrap_or(&0));
            }
        }
        if !docs.is_empty() {
            out.push(docs);
        }
    }
    Some(out)
}

/// phrases on which two documents can tie: a prefix of a word of the one that is also a prefix of a word of the other
fn shared_prefixes(a: &[String], b: &[String]) -> Vec<String> {
    let mut out = BTreeSet::new();
    for x in a {
        for y in b {
            let n = x.chars().zip(y.chars()).take_while(|(p, q)| p == q).count().min(7);
            for k in 1..=n {
                let p: String = x.chars().take(k).collect();
                if typable_word(&p) {
                    out.insert(p);
                }
            }
        }
    }
    out.into_iter().collect()
}

/// `conform c14-build`: build (or open) the on-disk database under the XDG_DATA_HOME given by the caller, nothing else
pub fn build(_args: &[String]) -> i32 {
    match Db::open() {
        Ok(_) => 0,
        Err(_) => 3,
    }
}

/// `conform c14-concurrent --phrases FILE --threads N`: N in-memory databases built at the same moment by N threads of
/// one fresh process (nothing else has touched the library in it); each answers every phrase.  One line per answer:
/// thread, phrase number, description of the returned constant (null: none).
pub fn concurrent(args: &[String]) -> i32 {
    quiet_panics();
    let phrases: Vec<(usize, String)> = serde_json::from_slice(&std::fs::read(arg_value(args, "--phrases").expect("--phrases")).expect("phrases")).expect("json");
    let n = arg_num(args, "--threads", 6) as usize;
    let phrases = std::sync::Arc::new(phrases);
    let barrier = std::sync::Arc::new(std::sync::Barrier::new(n));
    let mut hs = Vec::new();
    for t in 0..n {
        let (phrases, barrier) = (phrases.clone(), barrier.clone());
        hs.push(std::thread::spawn(move || {
            barrier.wait();
            let db = match Db::in_memory() {
                Ok(db) => db,
                Err(e) => return vec![json!({"t": t, "failed": e.to_string()})],
            };
            let mut lines = Vec::new();
            for (q, p) in phrases.iter() {
                let r = std::panic::catch_unwind(std::panic::AssertUnwindSafe(|| {
                    let parsed = anything::parse(p).ok()?;
                    let mut ds = Vec::new();
                    let rs: Vec<_> = anything::query(&parsed, &db, anything::Options::default().describe(), &mut ds).collect();
                    if rs.len() != 1 || rs[0].is_err() {
                        return None;
                    }
                    ds.into_iter().next().map(|d| match d {
                        anything::Description::Constant(_, c) => c.description.to_string(),
                    })
                }));
                lines.push(json!({"t": t, "q": q, "desc": r.unwrap_or(None)}));
            }
            lines
        }));
    }
    for h in hs {
        for l in h.join().unwrap_or_default() {
            println!("{}", l);
        }
    }
    0
}

pub fn trace(args: &[String]) -> i32 {
    quiet_panics();
    let out_path = arg_value(args, "--out").expect("--out");
    let work = PathBuf::from(arg_value(args, "--work").expect("--work"));
    let repo = arg_value(args, "--repo").unwrap_or("/repo".into());
    let mem_builds = arg_num(args, "--mem-builds", 4) as usize;
    let cap = arg_num(args, "--queries", 1500) as usize;
    let seed = arg_num(args, "--seed", 1);
    let fresh_disk = arg_num(args, "--fresh-disk", 2) as usize;
    let _ = std::fs::remove_dir_all(&work);
    let home = work.join("home");
    std::fs::create_dir_all(&home).unwrap();
    std::env::set_var("XDG_DATA_HOME", &home);
    std::env::set_var("HOME", &home);
    let shipped = shipped_constants(&repo);
    let mut rng = Rng::new(seed);
    let candidates = phrases(&shipped, &mut rng, cap);
    let reference = Db::in_memory().expect("reference in-memory database");
    let qs = select(&reference, candidates, cap);
    drop(reference);

    let mut plan: Vec<Session> = Vec::new();
    for _ in 0..mem_builds {
        plan.push(Session { kind: "memory" });
    }
    plan.push(Session { kind: "disk_first" });
    plan.push(Session { kind: "disk_reopen" });
    plan.push(Session { kind: "disk_rebuild" });
    plan.push(Session { kind: "disk_reopen" });
    for _ in 0..fresh_disk {
        plan.push(Session { kind: "disk_fresh" });
    }
    plan.push(Session { kind: "memory" });

    let mut out = Out::create(&out_path);
    let mut key_pos: BTreeMap<String, usize> = BTreeMap::new(); // doc key -> shipped position (1-based)
    let mut order_mismatch = 0usize;
    let mut first_docs: Vec<String> = Vec::new();
    let mut tie_phrases = BTreeSet::new();
    let mut lookups = 0usize;
    let mut problems: Vec<Value> = Vec::new();
    let mut layouts: Vec<(usize, PathBuf, Vec<Vec<usize>>)> = Vec::new();
    let mut first_answer: BTreeMap<usize, i64> = BTreeMap::new();
    for (sid, s) in plan.iter().enumerate() {
        if s.kind == "disk_rebuild" {
            // the stored hash no longer matches: the tool must rebuild into the existing index
            let p = home.join("facts/meta.json");
            let mut m: Value = serde_json::from_slice(&std::fs::read(&p).expect("meta.json")).expect("meta json");
            m["database_hash"] = json!("00000000000000000000000000000000");
            std::fs::write(&p, serde_json::to_vec(&m).unwrap()).unwrap();
        }
        if s.kind == "disk_fresh" {
            // a first on-disk build again: the data directory is absent
            let _ = std::fs::remove_dir_all(home.join("facts"));
        }
        anything::verif::take();
        anything::verif::enable(true);
        let db = if s.kind == "memory" { Db::in_memory() } else { Db::open() };
        anything::verif::enable(false);
        let events = anything::verif::take();
        let db = match db {
            Ok(db) => db,
            Err(e) => {
                eprintln!("session {} ({}) failed to open: {}", sid, s.kind, e);
                return 2;
            }
        };
        let docs: Vec<String> = events
            .iter()
            .filter_map(|e| serde_json::from_str::<Value>(e).ok())
            .filter(|v| v["ev"] == "doc")
            .map(|v| v["key"].as_str().unwrap().to_string())
            .collect();
        let rebuilt = !docs.is_empty();
        if rebuilt {
            if first_docs.is_empty() {
                for (i, k) in docs.iter().enumerate() {
                    key_pos.entry(k.clone()).or_insert(i + 1);
                }
                first_docs = docs.clone();
            } else if docs != first_docs {
                order_mismatch += 1;
            }
        }
        let expect_rebuild = s.kind != "disk_reopen";
        if rebuilt != expect_rebuild {
            problems.push(json!({"session": sid, "kind": s.kind, "what": if rebuilt { "rebuilt although the directory was current" } else { "did not rebuild" }}));
        }
        out.line(&json!({"ev": "session", "id": sid, "kind": s.kind, "docs": docs.len()}));
        if s.kind != "memory" && rebuilt {
            // keep a copy of every freshly built on-disk index and read its layout
            let copy = work.join(format!("copy{}", sid));
            crate::c15::copy_dir(&home.join("facts"), &copy.join("facts"));
            if let Some(l) = layout(&copy.join("facts/index"), &key_pos) {
                out.line(&json!({"ev": "layout", "s": sid, "segments": l.len(), "flat": l.iter().flatten().copied().collect::<Vec<usize>>()}));
                layouts.push((sid, copy, l));
            }
        }
        for (qi, q) in qs.iter().enumerate() {
            let o = run_query(&db, q, true);
            let lk: Vec<Value> = o
                .events
                .iter()
                .filter_map(|e| serde_json::from_str::<Value>(e).ok())
                .filter(|v| v["ev"] == "lookup")
                .collect();
            // every phrase of the query set is answered by the reference build: no answer here is an answer that differs
            let top = if lk.len() == 1 && o.results.len() == 1 && o.results[0].is_ok() {
                lk[0]["top"].as_array().cloned().unwrap_or_default()
            } else {
                Vec::new()
            };
            lookups += 1;
            if top.is_empty() {
                let what = match o.results.first() {
                    Some(Err((m, _, _))) => m.clone(),
                    _ => o.panic.clone().or(o.parse_error.clone()).unwrap_or_else(|| "no single answer".to_string()),
                };
                out.line(&json!({"ev": "lookup", "s": sid, "q": qi + 1, "phrase": q, "win": -1, "tie": [-1], "full": true, "none": what}));
                continue;
            }
            let best = top[0][0].as_str().unwrap().to_string();
            let tie: Vec<usize> = top
                .iter()
                .filter(|t| t[0].as_str() == Some(best.as_str()))
                .map(|t| *key_pos.get(t[1].as_str().unwrap()).unwrap_or(&0))
                .collect();
            let full = tie.len() < top.len() || top.len() < 8;
            let win = tie[0];
            if tie.len() > 1 {
                tie_phrases.insert(qi);
            }
            // the constant that was actually returned (C14 speaks about it, not about the ranking): identified among the
            // shipped constants by its description; normally it is the top document of the hook's list
            let returned = match (&o.results[0], o.descriptions.first()) {
                (Ok(_), Some((_, d))) => {
                    if win >= 1 && win <= shipped.len() && shipped[win - 1].1.description == *d {
                        win
                    } else {
                        shipped.iter().position(|(_, c)| c.description == *d).map(|i| i + 1).unwrap_or(0)
                    }
                }
                _ => 0,
            };
            if returned != win {
                problems.push(json!({"session": sid, "phrase": q, "what": "returned constant is not the best-scored document of the hook's list"}));
            }
            // (0 is the trace specification's "not asked yet": a constant that cannot be identified is -2)
            let shown: i64 = if returned == 0 { -2 } else { returned as i64 };
            first_answer.entry(qi + 1).or_insert(shown);
            out.line(&json!({"ev": "lookup", "s": sid, "q": qi + 1, "phrase": q, "win": shown, "tie": tie, "full": full}));
        }
    }
    // In-memory databases built at the same moment by the threads of one fresh process: each is a session of the history.
    let conc = arg_num(args, "--concurrent", 6) as usize;
    if conc > 0 {
        let mut ask: Vec<(usize, String)> = tie_phrases.iter().map(|qi| (*qi + 1, qs[*qi].clone())).collect();
        ask.extend(qs.iter().enumerate().filter(|(qi, _)| qi % 7 == 0 && !tie_phrases.contains(qi)).map(|(qi, p)| (qi + 1, p.clone())).take(300));
        let pf = work.join("concurrent-phrases.json");
        std::fs::write(&pf, serde_json::to_vec(&ask).unwrap()).unwrap();
        let exe = std::env::current_exe().expect("own path");
        for round in 0..3 {
            let o = std::process::Command::new(&exe).arg("c14-concurrent").arg("--phrases").arg(&pf).arg("--threads").arg(conc.to_string())
                .env("XDG_DATA_HOME", work.join("conc-home")).env("HOME", work.join("conc-home")).output();
            let o = match o {
                Ok(o) if o.status.success() => o,
                _ => {
                    problems.push(json!({"what": "the process with concurrent in-memory builds failed"}));
                    continue;
                }
            };
            let mut started = BTreeSet::new();
            for line in String::from_utf8_lossy(&o.stdout).lines() {
                let v: Value = match serde_json::from_str(line) {
                    Ok(v) => v,
                    Err(_) => continue,
                };
                let sid = 300 + round * 20 + v["t"].as_u64().unwrap_or(0) as usize;
                if started.insert(sid) {
                    out.line(&json!({"ev": "session", "id": sid, "kind": "memory_concurrent", "docs": 0}));
                }
                if v.get("failed").is_some() {
                    problems.push(json!({"what": "a concurrent in-memory build failed", "error": v["failed"]}));
                    continue;
                }
                let q = v["q"].as_u64().unwrap_or(0) as usize;
                // the returned constant is identified by its description; should several constants share it, the one the
                // history already knows is meant
                let win: i64 = match v["desc"].as_str() {
                    Some(d) => {
                        let known = first_answer.get(&q).copied().unwrap_or(0);
                        if known >= 1 && (known as usize) <= shipped.len() && shipped[known as usize - 1].1.description == *d {
                            known
                        } else {
                            shipped.iter().position(|(_, c)| c.description == *d).map(|i| i as i64 + 1).unwrap_or(-2)
                        }
                    }
                    None => -1,
                };
                lookups += 1;
                out.line(&json!({"ev": "lookup", "s": sid, "q": q, "phrase": qs[q - 1], "win": win, "tie": [win], "full": false}));
            }
        }
    }
    // Builds under contention: several processes build their own on-disk index at the same time (scheduling of any
    // threads involved in a build differs from the quiet, sequential builds above); their layouts join the comparison.
    let stress = arg_num(args, "--stress", 12) as usize;
    if stress > 0 {
        let exe = std::env::current_exe().expect("own path");
        for round in 0..2 {
            let mut kids = Vec::new();
            for k in 0..stress {
                let dir = work.join(format!("stress{}-{}", round, k));
                let _ = std::fs::create_dir_all(&dir);
                let child = std::process::Command::new(&exe).arg("c14-build").env("XDG_DATA_HOME", &dir).env("HOME", &dir)
                    .stdout(std::process::Stdio::null()).stderr(std::process::Stdio::null()).spawn();
                if let Ok(c) = child {
                    kids.push((dir, c));
                }
            }
            for (dir, mut c) in kids {
                let ok = c.wait().map(|s| s.success()).unwrap_or(false);
                if !ok {
                    problems.push(json!({"what": "a concurrent on-disk build failed", "dir": dir.display().to_string()}));
                    continue;
                }
                if let Some(l) = layout(&dir.join("facts/index"), &key_pos) {
                    let sid = 200 + layouts.len();
                    out.line(&json!({"ev": "layout", "s": sid, "segments": l.len(), "flat": l.iter().flatten().copied().collect::<Vec<usize>>()}));
                    layouts.push((sid, dir, l));
                }
            }
        }
    }
    // Layout-guided search for witnesses: where two on-disk builds order two documents differently, ask both (reopened
    // from their copies) for every phrase on which those two documents can tie.
    let mut extra: Vec<String> = Vec::new();
    let mut layouts_differ = 0usize;
    if layouts.len() >= 2 {
        let flat = |l: &Vec<Vec<usize>>| l.iter().flatten().copied().collect::<Vec<usize>>();
        let base = flat(&layouts[0].2);
        let mut cand = BTreeSet::new();
        for (_, _, l) in layouts.iter().skip(1) {
            let f = flat(l);
            if f == base {
                continue;
            }
            layouts_differ += 1;
            let pos_in: BTreeMap<usize, usize> = f.iter().enumerate().map(|(i, d)| (*d, i)).collect();
            // adjacent pairs of the first layout that the other layout inverts (enough to witness any difference in order)
            let mut pairs = 0;
            for i in 0..base.len() {
                for j in (i + 1)..base.len().min(i + 40) {
                    if let (Some(a), Some(b)) = (pos_in.get(&base[i]), pos_in.get(&base[j])) {
                        if a > b && base[i] >= 1 && base[j] >= 1 && base[i] <= shipped.len() && base[j] <= shipped.len() {
                            for p in shared_prefixes(&shipped[base[i] - 1].1.tokens, &shipped[base[j] - 1].1.tokens) {
                                cand.insert(p);
                            }
                            pairs += 1;
                        }
                    }
                }
                if pairs > 4000 || cand.len() > 3000 {
                    break;
                }
            }
        }
        extra = cand.into_iter().filter(|p| !qs.contains(p)).take(3000).collect();
        if layouts_differ > 0 {
            let nbase = qs.len();
            // every phrase known to be ambiguous is asked of every copy as well (with its own number), then the new candidates
            let mut ask: Vec<(usize, String)> = tie_phrases.iter().map(|qi| (*qi + 1, qs[*qi].clone())).collect();
            ask.extend(extra.iter().enumerate().map(|(i, p)| (nbase + i + 1, p.clone())));
            for (k, (sid0, copy, _)) in layouts.iter().enumerate() {
                std::env::set_var("XDG_DATA_HOME", copy);
                let db = match Db::open() {
                    Ok(db) => db,
                    Err(_) => continue,
                };
                let sid = 100 + k;
                out.line(&json!({"ev": "session", "id": sid, "kind": "disk_copy", "of": sid0, "docs": 0}));
                for (qnum, q) in ask.iter() {
                    let o = run_query(&db, q, true);
                    let lk: Vec<Value> = o.events.iter().filter_map(|e| serde_json::from_str::<Value>(e).ok()).filter(|v| v["ev"] == "lookup").collect();
                    let top = if lk.len() == 1 && o.results.len() == 1 && o.results[0].is_ok() { lk[0]["top"].as_array().cloned().unwrap_or_default() } else { Vec::new() };
                    if top.is_empty() {
                        continue; // not answered as a phrase at all (e.g. read as a unit): the same in every copy
                    }
                    lookups += 1;
                    let best = top[0][0].as_str().unwrap().to_string();
                    let tie: Vec<usize> = top.iter().filter(|t| t[0].as_str() == Some(best.as_str())).map(|t| *key_pos.get(t[1].as_str().unwrap()).unwrap_or(&0)).collect();
                    // the constant actually returned, as in the sessions above
                    let returned = match o.descriptions.first() {
                        Some((_, d)) if tie[0] >= 1 && tie[0] <= shipped.len() && shipped[tie[0] - 1].1.description == *d => tie[0] as i64,
                        Some((_, d)) => shipped.iter().position(|(_, c)| c.description == *d).map(|i| i as i64 + 1).unwrap_or(-2),
                        None => -2,
                    };
                    out.line(&json!({"ev": "lookup", "s": sid, "q": qnum, "phrase": q, "win": returned, "tie": tie, "full": tie.len() < top.len() || top.len() < 8}));
                }
            }
            std::env::set_var("XDG_DATA_HOME", &home);
        }
    }
    let nphrases = qs.len() + extra.len();
    out.finish();
    println!(
        "{}",
        json!({"phrases": nphrases, "witness_phrases": extra.len(), "layouts": layouts.len(), "layouts_differ": layouts_differ,
               "segments": layouts.iter().map(|l| l.2.len()).collect::<Vec<_>>(), "sessions": plan.iter().map(|s| s.kind).collect::<Vec<_>>(), "lookups": lookups,
               "tie_phrases": tie_phrases.len(), "order_mismatch": order_mismatch, "shipped": shipped.len(), "problems": problems,
               "sample_tie_phrases": tie_phrases.iter().take(6).map(|i| qs[*i].clone()).collect::<Vec<_>>()})
    );
    let _ = std::fs::remove_dir_all(&work);
    0
}
