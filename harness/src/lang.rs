//! Recording of query evaluations as trace lines for spec/Trace_Lang.tla, spec/Trace_Lex.tla
//! and friends.  One line per query: characters (named as in Lexer.tla), the real lexer's
//! tokens, the leaves of the real parser's tree, every result, every operator application
//! reported by the evaluation hook, and a panic message if any.

use crate::common::*;
use anything::syntax::lexer::Lexer;
use anything::syntax::parser::Parser;
use anything::{Db, Numeric};
use serde_json::{json, Value};
use std::collections::HashMap;

pub fn char_name(c: char) -> String {
    if c.is_ascii() {
        return match c {
            '\u{b}' => "VT".into(),
            '\u{c}' => "FF".into(),
            c if (c as u32) < 0x20 && !matches!(c, '\t' | '\n' | '\r') => "CTRL".into(),
            '\u{7f}' => "CTRL".into(),
            c => c.to_string(),
        };
    }
    match c {
        '°' => "DEG".into(),
        'μ' => "MU".into(),
        'Ω' => "OMEGA".into(),
        c if c.is_whitespace() => match c.len_utf8() {
            2 => "NBSP".into(),
            _ => "EMSP".into(),
        },
        c => match c.len_utf8() {
            2 => "EACUTE".into(),
            3 => "CJK".into(),
            _ => "EMOJI".into(),
        },
    }
}

pub fn char_names(s: &str) -> Vec<String> {
    s.chars().map(char_name).collect()
}

pub fn limbs(dec: &str) -> Vec<u32> {
    let s = dec.trim_start_matches(['-', '+']);
    let s = if s.is_empty() { "0" } else { s };
    let pad = (4 - s.len() % 4) % 4;
    let padded = format!("{}{}", "0".repeat(pad), s);
    padded.as_bytes().chunks(4).map(|c| std::str::from_utf8(c).unwrap().parse().unwrap()).collect()
}

pub struct Ids {
    pub by_id: HashMap<String, String>,
}

impl Ids {
    pub fn load(path: &str) -> Self {
        let v: Value = serde_json::from_slice(&std::fs::read(path).unwrap_or_else(|e| panic!("read {}: {}", path, e))).unwrap();
        let mut by_id = HashMap::new();
        for (k, id) in v.as_object().unwrap() {
            by_id.insert(id.as_str().unwrap().to_string(), k.clone());
        }
        Ids { by_id }
    }
    /// hook / serde unit name -> vocabulary key (pinned identifier table)
    pub fn key(&self, name: &str) -> String {
        if let Some(id) = name.strip_prefix('#') {
            self.by_id.get(id).cloned().unwrap_or_else(|| format!("?{}", id))
        } else {
            name.to_string()
        }
    }
}

pub fn units_json(names: &[(String, i32, i32)], ids: &Ids) -> Value {
    Value::Array(names.iter().map(|(n, p, x)| json!([ids.key(n), p, x])).collect())
}

pub fn value_json(n: &Numeric, ids: &Ids) -> Value {
    let num = n.value.numer().to_string();
    json!({"k": "val", "neg": num.starts_with('-'), "n": limbs(&num), "d": limbs(&n.value.denom().to_string()),
           "u": units_json(&unit_names(&n.unit), ids)})
}

/// a numeric as emitted by the in-crate hook: {"n": "..", "d": "..", "u": [[name, pw, px]]}
fn hook_value(v: &Value, ids: &Ids) -> Value {
    let num = v["n"].as_str().unwrap_or("0");
    let us: Vec<(String, i32, i32)> = v["u"]
        .as_array()
        .map(|a| a.iter().map(|e| (e[0].as_str().unwrap().to_string(), e[1].as_i64().unwrap() as i32, e[2].as_i64().unwrap() as i32)).collect())
        .unwrap_or_default();
    json!({"k": "val", "neg": num.starts_with('-'), "n": limbs(num), "d": limbs(v["d"].as_str().unwrap_or("1")), "u": units_json(&us, ids)})
}

pub fn tokens_json(src: &str) -> Value {
    Value::Array(Lexer::new(src).map(|t| json!([format!("{:?}", t.kind), t.len])).collect())
}

/// leaves of the real parser's tree, as [kind, byte length]; None if building the tree failed
pub fn leaves_json(src: &str) -> Option<Value> {
    let tree = Parser::new(src).parse_root().ok()?;
    let mut leaves = Vec::new();
    for n in tree.walk() {
        if !n.has_children() {
            let sp = n.span();
            if sp.start != sp.end {
                leaves.push(json!([format!("{:?}", n.value()), (sp.end - sp.start) as usize]));
            }
        }
    }
    Some(Value::Array(leaves))
}

/// the real parser's tree: nodes {"k", "leaf": false, "ch": [..]}, tokens {"k", "leaf": true, "i": n-th token, "len": bytes}
pub fn tree_json(src: &str) -> Option<Value> {
    use syntree::Node;
    let tree = Parser::new(src).parse_root().ok()?;
    fn conv(n: Node<'_, anything::syntax::parser::Syntax, u32, u32>, next: &mut usize) -> Option<Value> {
        let sp = n.span();
        if !n.has_children() && sp.start != sp.end {
            // a token (tokens are never empty); an empty node has an empty span
            *next += 1;
            return Some(json!({"k": format!("{:?}", n.value()), "leaf": true, "i": *next, "len": (sp.end - sp.start) as usize, "ch": []}));
        }
        let mut ch = Vec::new();
        for c in n.children() {
            ch.push(conv(c, next)?);
        }
        Some(json!({"k": format!("{:?}", n.value()), "leaf": false, "i": 0, "len": 0, "ch": ch}))
    }
    let mut next = 0usize;
    let mut top = Vec::new();
    for c in tree.children() {
        top.push(conv(c, &mut next)?);
    }
    Some(Value::Array(top))
}

pub fn record(db: &Db, src: &str, id: usize, ids: &Ids, with_tokens: bool) -> Value {
    let o = run_query(db, src, true);
    let res: Vec<Value> = o
        .results
        .iter()
        .map(|r| match r {
            Ok(n) => value_json(n, ids),
            Err((m, a, b)) => json!({"k": "err", "msg": m, "a": a, "b": b}),
        })
        .collect();
    let mut apps = Vec::new();
    let mut lookups = Vec::new();
    for e in &o.events {
        let v: Value = match serde_json::from_str(e) {
            Ok(v) => v,
            Err(_) => continue,
        };
        if v["ev"] == "apply" {
            let args: Vec<Value> = v["args"].as_array().unwrap().iter().map(|a| hook_value(a, ids)).collect();
            let out = if v.get("out").is_some() { hook_value(&v["out"], ids) } else { json!({"k": "err", "msg": v["err"]}) };
            apps.push(json!({"op": v["op"], "args": args, "out": out}));
        } else if v["ev"] == "lookup" {
            lookups.push(json!({"phrase": v["phrase"], "top": v["top"]}));
        }
    }
    // can every value be displayed?  (C11: "a value that can be displayed")
    let shown: Vec<bool> = o
        .results
        .iter()
        .map(|r| match r {
            Ok(n) => std::panic::catch_unwind(|| {
                let mut spec = anything::rational::DisplaySpec::default();
                spec.limit = 12;
                spec.exponent_limit = 12;
                format!("{} {} {}", n.value.display(&spec), n.unit.display(true), n.unit.display(false)).len()
            })
            .is_ok(),
            Err(_) => true,
        })
        .collect();
    let mut rec = json!({"id": id, "text": src, "src": char_names(src), "res": res, "apps": apps, "shown": shown,
                         "panic": o.panic.clone().unwrap_or_default(), "lookups": lookups,
                         "desc": o.descriptions.iter().map(|(q, d)| json!([q, d])).collect::<Vec<_>>()});
    if with_tokens {
        let toks = std::panic::catch_unwind(|| tokens_json(src)).unwrap_or(Value::Null);
        let leaves = std::panic::catch_unwind(|| leaves_json(src)).ok().flatten().unwrap_or(Value::Null);
        rec["toks"] = toks;
        rec["leaves"] = leaves;
        let tree = std::panic::catch_unwind(|| tree_json(src)).ok().flatten();
        rec["tree_ok"] = json!(tree.is_some());
        // the JSON reader on the TLC side stops at 255 levels of nesting: very deep trees are validated through their leaves only
        fn depth(v: &Value) -> usize {
            match v {
                Value::Array(a) => 1 + a.iter().map(depth).max().unwrap_or(0),
                Value::Object(o) => 1 + o.get("ch").map(depth).unwrap_or(0),
                _ => 0,
            }
        }
        let deep = tree.as_ref().map(|t| depth(t) > 200).unwrap_or(false);
        rec["deep"] = json!(deep);
        if rec["leaves"].is_null() {
            rec["leaves"] = json!([]);
        }
        rec["tree"] = if deep { json!([]) } else { tree.unwrap_or_else(|| json!([])) };
        rec["toks_ok"] = json!(!rec["toks"].is_null());
        if rec["toks"].is_null() {
            rec["toks"] = json!([]);
        }
    }
    rec
}

/// resident set of this process in GB (0 if /proc cannot be read)
fn resident_gb() -> f64 {
    std::fs::read_to_string("/proc/self/statm")
        .ok()
        .and_then(|s| s.split_whitespace().nth(1).and_then(|p| p.parse::<f64>().ok()))
        .map(|pages| pages * 4096.0 / 1e9)
        .unwrap_or(0.0)
}

/// `conform lang-trace --in FILE --out FILE --ids vocab/ids.json [--tokens]`
/// FILE holds one JSON string per line.
pub fn trace(args: &[String]) -> i32 {
    quiet_panics();
    let inp = arg_value(args, "--in").expect("--in");
    let outp = arg_value(args, "--out").expect("--out");
    let ids_path = arg_value(args, "--ids").expect("--ids");
    let with_tokens = args.iter().any(|a| a == "--tokens");
    let start = arg_num(args, "--start", 0) as usize;
    let patience = arg_num(args, "--patience", 45);
    let home = std::env::temp_dir().join(format!("conform-home-{}", std::process::id()));
    std::fs::create_dir_all(&home).unwrap();
    std::env::set_var("XDG_DATA_HOME", &home);
    let lines = read_lines(&inp);
    let total = lines.len();
    // The queries are evaluated by a worker thread; this thread waits for each record with a deadline.  A query the
    // library never returns from is recorded as such, and the process ends (the stuck thread cannot be stopped);
    // the driver resumes behind it with `--start`.
    let (tx, rx) = std::sync::mpsc::channel::<Value>();
    let worker_lines = lines.clone();
    std::thread::Builder::new()
        .stack_size(512 << 20)
        .spawn(move || {
            let ids = Ids::load(&ids_path);
            let db = Db::in_memory().expect("in-memory db");
            for (i, line) in worker_lines.iter().enumerate().skip(start) {
                let src: String = serde_json::from_str(line).unwrap_or_else(|_| line.clone());
                if tx.send(record(&db, &src, i + 1, &ids, with_tokens)).is_err() {
                    break;
                }
            }
        })
        .expect("worker thread");
    let mut out = if start > 0 {
        Out::append(&outp)
    } else {
        Out::create(&outp)
    };
    let mut n = start;
    let mut resume: Option<usize> = None;
    while n < total {
        // the first record also pays for building the database
        let wait = std::time::Duration::from_secs(if n == start { patience + 60 } else { patience });
        // (waited for in slices: a query under which the process grows beyond 6 GB is given up at once -- a lexer or parser
        // that does not terminate allocates gigabytes per second, and nothing else on the machine would survive the wait)
        let t0 = std::time::Instant::now();
        let mut got = None;
        let mut grown = false;
        while t0.elapsed() < wait {
            match rx.recv_timeout(std::time::Duration::from_millis(100)) {
                Ok(rec) => {
                    got = Some(rec);
                    break;
                }
                Err(std::sync::mpsc::RecvTimeoutError::Timeout) => {
                    if resident_gb() > 6.0 {
                        grown = true;
                        break;
                    }
                }
                Err(_) => break,
            }
        }
        match got.ok_or(()) {
            Ok(rec) => {
                out.line(&rec);
                n += 1;
            }
            Err(_) => {
                let src: String = serde_json::from_str(&lines[n]).unwrap_or_else(|_| lines[n].clone());
                out.line(&json!({"id": n + 1, "text": src, "src": char_names(&src), "res": [], "apps": [], "shown": [], "lookups": [], "desc": [],
                                 "panic": if grown { "memory beyond 6 GB: the evaluation does not terminate".to_string() } else { format!("no result after {} s: the evaluation does not terminate", patience) },
                                 "toks": [], "toks_ok": false, "leaves": [], "tree": [], "tree_ok": false, "deep": false, "timeout": true}));
                n += 1;
                resume = Some(n);
                break;
            }
        }
    }
    out.finish();
    let _ = std::fs::remove_dir_all(&home);
    println!("{}", json!({"records": n, "total": total, "resume": resume}));
    std::process::exit(0);
}

/// `conform c07-record --in FILE --out FILE`: every literal is given to the library's number parser,
/// written as a query, and written as a query with a percent sign.
pub fn literals(args: &[String]) -> i32 {
    quiet_panics();
    let inp = arg_value(args, "--in").expect("--in");
    let outp = arg_value(args, "--out").expect("--out");
    let home = std::env::temp_dir().join(format!("conform-home-{}", std::process::id()));
    std::fs::create_dir_all(&home).unwrap();
    std::env::set_var("XDG_DATA_HOME", &home);
    let db = Db::in_memory().expect("in-memory db");
    let mut out = Out::create(&outp);
    let bad = || json!({"ok": false, "neg": false, "n": [0], "d": [1], "count": 0});
    let val = |n: &anything::Rational, count: usize| {
        let num = n.numer().to_string();
        json!({"ok": true, "neg": num.starts_with('-'), "n": limbs(&num), "d": limbs(&n.denom().to_string()), "count": count})
    };
    let via_query = |src: &str| -> Value {
        let o = run_query(&db, src, false);
        if o.panic.is_some() || o.parse_error.is_some() {
            return bad();
        }
        match o.results.as_slice() {
            [Ok(n)] if n.unit.is_empty() => val(&n.value, 1),
            rs => {
                let mut b = bad();
                b["count"] = json!(rs.len());
                b
            }
        }
    };
    let mut n = 0usize;
    for (i, line) in read_lines(&inp).iter().enumerate() {
        let src: String = serde_json::from_str(line).unwrap_or_else(|_| line.clone());
        let lib = match std::panic::catch_unwind(|| src.parse::<anything::Rational>()) {
            Ok(Ok(r)) => val(&r, 1),
            _ => bad(),
        };
        let q = via_query(&src);
        let pct = via_query(&format!("{}%", src));
        out.line(&json!({"id": i + 1, "text": src, "src": char_names(&src), "lib": lib, "q": q, "pct": pct}));
        n += 1;
    }
    out.finish();
    let _ = std::fs::remove_dir_all(&home);
    println!("{}", json!({"records": n}));
    0
}

/// `conform c08-record --in FILE --out FILE`: every vector {neg, n, d, k, limit, el} is rendered by
/// `Rational::display`; the printed characters are recorded (the continuation mark as "ELL").
pub fn display(args: &[String]) -> i32 {
    use num::BigInt;
    quiet_panics();
    let inp = arg_value(args, "--in").expect("--in");
    let outp = arg_value(args, "--out").expect("--out");
    let mut out = Out::create(&outp);
    let mut count = 0usize;
    for (i, line) in read_lines(&inp).iter().enumerate() {
        let v: Value = serde_json::from_str(line).expect("vector");
        let (n, d, k) = (v["n"].as_i64().unwrap(), v["d"].as_i64().unwrap(), v["k"].as_i64().unwrap());
        let neg = v["neg"].as_bool().unwrap();
        let (limit, el) = (v["limit"].as_u64().unwrap() as usize, v["el"].as_u64().unwrap() as usize);
        let mut num = BigInt::from(n);
        let mut den = BigInt::from(d);
        let ten = BigInt::from(10);
        for _ in 0..k.abs() {
            if k > 0 {
                num *= &ten;
            } else {
                den *= &ten;
            }
        }
        if neg {
            num = -num;
        }
        // form: how the value reaches the formatter.  Rational::new reduces and keeps the denominator positive; a value that was
        // stored (serde: the pair as it stands) may have both parts negated ("negden") or a common factor ("unreduced") --
        // the same rational number, and a value of the type like any other
        let form = v["form"].as_str().unwrap_or("");
        let r = if form == "negden" || form == "unreduced" {
            let (a, b) = if form == "negden" { (-num.clone(), -den.clone()) } else { (num.clone() * BigInt::from(6), den.clone() * BigInt::from(6)) };
            let enc = |x: BigInt| serde_json::to_value(anything::Rational::new(x, BigInt::from(1))).expect("encode")[0].clone();
            serde_json::from_value::<anything::Rational>(Value::Array(vec![enc(a), enc(b)])).expect("a pair decodes to a rational")
        } else {
            anything::Rational::new(num, den)
        };
        let text = std::panic::catch_unwind(|| {
            let mut spec = anything::rational::DisplaySpec::default();
            spec.limit = limit;
            spec.exponent_limit = el;
            r.display(&spec).to_string()
        });
        let (text, panic) = match text {
            Ok(t) => (t, String::new()),
            Err(e) => (String::new(), panic_text(e)),
        };
        let chars: Vec<String> = text.chars().map(|c| if c == '…' { "ELL".to_string() } else { c.to_string() }).collect();
        out.line(&json!({"id": i + 1, "neg": neg, "n": n, "d": d, "k": k, "limit": limit, "el": el, "form": form, "text": text, "chars": chars, "panic": panic}));
        count += 1;
    }
    out.finish();
    println!("{}", json!({"records": count}));
    0
}
