//! C15 (and the store half of C14): replay TLC-generated fault / start / kill schedules of
//! spec/MC_Store.tla against real data directories, compare the directory state and the
//! answers with what the specification expects after every item, and record the store-step
//! events of every run for validation against spec/Trace_Store.tla.

use crate::common::*;
use anything::Db;
use serde_json::{json, Value};
use std::path::{Path, PathBuf};
use std::process::{Command, Stdio};
use std::sync::atomic::{AtomicUsize, Ordering};
use std::sync::{Arc, Mutex};

pub fn copy_dir(from: &Path, to: &Path) {
    // a directory that is still being written (segments merged and deleted in the background) is copied again until one
    // pass sees no file vanish under it
    for _ in 0..5 {
        if copy_dir_once(from, to) {
            return;
        }
        std::thread::sleep(std::time::Duration::from_millis(200));
        let _ = std::fs::remove_dir_all(to);
    }
    copy_dir_once(from, to);
}

fn copy_dir_once(from: &Path, to: &Path) -> bool {
    let mut stable = true;
    std::fs::create_dir_all(to).unwrap();
    let entries = match std::fs::read_dir(from) {
        Ok(e) => e,
        Err(_) => return false,
    };
    for e in entries {
        let e = match e {
            Ok(e) => e,
            Err(_) => {
                stable = false;
                continue;
            }
        };
        let p = e.path();
        let t = to.join(e.file_name());
        if p.is_dir() {
            stable &= copy_dir_once(&p, &t);
        } else if std::fs::copy(&p, &t).is_err() {
            stable = false;
        }
    }
    stable
}

/// The tool's schema (variant 0), or what another version might have left behind: other field names (1), the same field
/// names with `name` indexed by whole words without positions (2).
fn build_schema(variant: usize) -> tantivy::schema::Schema {
    use tantivy::schema::*;
    let text_field_indexing = if variant == 2 {
        TextFieldIndexing::default().set_tokenizer("default").set_index_option(IndexRecordOption::Basic)
    } else {
        TextFieldIndexing::default().set_tokenizer("ngram").set_index_option(IndexRecordOption::WithFreqsAndPositions)
    };
    let text_options = TextOptions::default()
        .set_indexing_options(text_field_indexing)
        .set_stored();
    let mut schema = Schema::builder();
    schema.add_bytes_field(if variant == 1 { "payload" } else { "data" }, STORED);
    schema.add_text_field(if variant == 1 { "title" } else { "name" }, text_options);
    schema.build()
}

/// An index "written for other data" or by another version: three documents that are not shipped, under the schema variant.
pub fn mkold(dir: &Path, variant: usize) {
    use tantivy::tokenizer::{LowerCaser, NgramTokenizer, TextAnalyzer};
    std::fs::create_dir_all(dir).unwrap();
    let schema = build_schema(variant);
    let index = tantivy::Index::create_in_dir(dir, schema.clone()).unwrap();
    index.tokenizers().register(
        "ngram",
        TextAnalyzer::from(NgramTokenizer::new(1, 7, true)).filter(LowerCaser),
    );
    let data = schema.get_field(if variant == 1 { "payload" } else { "data" }).unwrap();
    let name = schema.get_field(if variant == 1 { "title" } else { "name" }).unwrap();
    let mut w = index.writer_with_num_threads(1, 50_000_000).unwrap();
    for t in ["bogus one", "bogus two", "mass earth bogus"] {
        let mut d = tantivy::Document::default();
        d.add_bytes(data, vec![0xf6u8]);
        d.add_text(name, t);
        w.add_document(d).unwrap();
    }
    w.commit().unwrap();
}

/// Abstract class of the index directory, as in Store.tla.
pub fn classify_index(dir: &Path, shipped: u64) -> String {
    if !dir.exists() {
        return "Absent".into();
    }
    let index = match tantivy::Index::open_in_dir(dir) {
        Ok(i) => i,
        Err(_) => return "NoIndex".into(),
    };
    let reader = match index.reader_builder().reload_policy(tantivy::ReloadPolicy::Manual).try_into() {
        Ok(r) => r,
        Err(_) => return "NoIndex".into(),
    };
    let reader: tantivy::IndexReader = reader;
    let n = reader.searcher().num_docs();
    if n == 0 {
        "Empty".into()
    } else if n == shipped {
        "New".into()
    } else {
        "Old".into()
    }
}

pub fn classify_meta(path: &Path, version: &str, hash: &str) -> String {
    if !path.is_file() {
        return "Absent".into();
    }
    let text = match std::fs::read(path) {
        Ok(t) => t,
        Err(_) => return "Garbage".into(),
    };
    let v: Value = match serde_json::from_slice(&text) {
        Ok(v) => v,
        Err(_) => return "Garbage".into(),
    };
    let ver = v.get("version").and_then(|x| x.as_str());
    let h = v.get("database_hash").and_then(|x| x.as_str());
    match (ver, h) {
        (Some(a), Some(b)) if a == version && b == hash => "Current".into(),
        (Some(a), Some(_)) if a != version => "OtherVersion".into(),
        (Some(_), Some(_)) => "OtherHash".into(),
        (Some(a), None) if a == version && v.is_object() => "NoHash".into(),
        _ => "Garbage".into(),
    }
}

/// `conform c15-helper [--memory] --queries FILE`: what the property calls "a helper that
/// calls Db::open under a private XDG_DATA_HOME".  One JSON line per query.
pub fn helper(args: &[String]) -> i32 {
    quiet_panics();
    let memory = args.iter().any(|a| a == "--memory");
    let qfile = arg_value(args, "--queries").expect("--queries");
    let db = if memory { Db::in_memory() } else { Db::open() };
    let db = match db {
        Ok(db) => db,
        Err(e) => {
            println!("{}", json!({"open_error": e.to_string()}));
            return 3;
        }
    };
    for q in read_lines(&qfile) {
        let o = run_query(&db, &q, true);
        println!("{}", json!({"q": q, "out": outcome_json(&o)}));
    }
    0
}

struct Ctx {
    exe: PathBuf,
    any: PathBuf,
    work: PathBuf,
    version: String,
    hash: String,
    shipped: u64,
    qfile: String,
    reference: Vec<String>,          // helper output lines for the query set on a fresh in-memory db
    any_queries: Vec<(String, String)>, // (query, stdout of `any --exact` on a fresh good directory)
}

struct Run {
    crashed: bool,
    status: String,
    answers: Option<bool>, // Some(fresh?) if the run reached ready and answered
    events: Vec<Value>,
    detail: String,
}

fn run_start(ctx: &Ctx, home: &Path, memory: bool, crash: Option<(String, u64)>, use_any: Option<usize>) -> Run {
    let trace = home.join("trace.ndjson");
    let _ = std::fs::remove_file(&trace);
    let mut cmd;
    if let Some(qi) = use_any {
        cmd = Command::new(&ctx.any);
        cmd.arg("--exact");
        for w in ctx.any_queries[qi].0.split(' ') {
            cmd.arg(w);
        }
        cmd.env("NO_COLOR", "1");
    } else {
        cmd = Command::new(&ctx.exe);
        cmd.arg("c15-helper").arg("--queries").arg(&ctx.qfile);
        if memory {
            cmd.arg("--memory");
        }
    }
    cmd.env("XDG_DATA_HOME", home)
        .env("HOME", home)
        .env("ANYTHING_VERIF_TRACE", &trace)
        .env_remove("ANYTHING_VERIF_CRASH")
        .env_remove("RUST_LOG")
        .stdin(Stdio::null())
        .stderr(Stdio::piped())
        .stdout(Stdio::piped());
    if let Some((step, n)) = &crash {
        cmd.env("ANYTHING_VERIF_CRASH", format!("{}:{}", step, n));
    }
    let out = cmd.output().expect("spawn helper");
    let stdout = String::from_utf8_lossy(&out.stdout).to_string();
    let events: Vec<Value> = if trace.is_file() {
        read_lines(trace.to_str().unwrap())
            .iter()
            .filter_map(|l| serde_json::from_str(l).ok())
            .collect()
    } else {
        Vec::new()
    };
    let crashed = !out.status.success() && out.status.code().is_none();
    let status = format!("{:?}", out.status);
    let mut answers = None;
    let mut detail = String::new();
    if out.status.success() {
        if let Some(qi) = use_any {
            let fresh = stdout == ctx.any_queries[qi].1;
            if !fresh {
                detail = format!("any --exact {:?} printed {:?}, a fresh directory gives {:?}", ctx.any_queries[qi].0, stdout, ctx.any_queries[qi].1);
            }
            answers = Some(fresh);
        } else {
            let lines: Vec<String> = stdout.lines().map(|s| s.to_string()).collect();
            let fresh = lines == ctx.reference;
            if !fresh {
                let first = lines.iter().zip(ctx.reference.iter()).find(|(a, b)| a != b);
                detail = match first {
                    Some((a, b)) => format!("first differing answer: got {} expected {}", a, b),
                    None => format!("{} answers, expected {}", lines.len(), ctx.reference.len()),
                };
            }
            answers = Some(fresh);
        }
    } else if !crashed {
        detail = format!("exit {:?}: {} {}", out.status.code(), stdout.trim(), String::from_utf8_lossy(&out.stderr).trim());
    }
    Run { crashed, status, answers, events, detail }
}

/// What a kill in the middle of `remove_dir_all` leaves: some files gone, among them
/// (directory order is arbitrary) tantivy's own meta.json.
fn partial_remove(index: &Path) {
    let mut names: Vec<PathBuf> = match std::fs::read_dir(index) {
        Ok(d) => d.filter_map(|e| e.ok().map(|e| e.path())).collect(),
        Err(_) => return,
    };
    names.sort();
    for (j, p) in names.iter().enumerate() {
        let is_meta = p.file_name().map_or(false, |n| n == "meta.json");
        if is_meta || j % 2 == 0 {
            let _ = if p.is_dir() { std::fs::remove_dir_all(p) } else { std::fs::remove_file(p) };
        }
    }
}

fn write_meta(path: &Path, version: &str, hash: &str) {
    std::fs::write(path, serde_json::to_vec(&json!({"version": version, "database_hash": hash})).unwrap()).unwrap();
}

fn run_vector(ctx: &Ctx, i: usize, vec: &Value, docs_model: u64) -> Value {
    let home = ctx.work.join(format!("v{}", i));
    let _ = std::fs::remove_dir_all(&home);
    let data = home.join("facts");
    std::fs::create_dir_all(&data).unwrap();
    let meta_path = data.join("meta.json");
    let index_path = data.join("index");
    let hist = vec["hist"].as_array().unwrap();
    let mut trace: Vec<Value> = Vec::new();
    let mut items: Vec<Value> = Vec::new();
    let mut violations: Vec<Value> = Vec::new();
    let mut drifts: Vec<Value> = Vec::new();
    let use_any = i % 3 == 2; // every third schedule is driven through the real `any` binary
    let mut any_rot = i;
    let mut before_meta = String::from("Absent");
    // how "metadata missing" is realised: named by the schedule, otherwise by its number
    let real = vec.get("real").and_then(|r| r.as_u64()).map(|r| r as usize).unwrap_or(i);
    for (k, item) in hist.iter().enumerate() {
        let kind = item["k"].as_str().unwrap();
        let what = item["what"].as_str().unwrap();
        let n = item["n"].as_u64().unwrap_or(1);
        let exp_meta = item["meta"].as_str().unwrap();
        let exp_idx = item["idx"].as_str().unwrap();
        let mut rec = json!({"k": kind, "what": what, "n": n});
        match kind {
            "init" => {
                match (exp_meta, exp_idx) {
                    ("Absent", "Absent") => {}
                    ("Current", "New") => copy_dir(&ctx.work.join("template_good/facts"), &data),
                    ("OtherVersion", "Old") => {
                        // another version may have used another schema -- unless the schedule goes on to replace the metadata
                        // by one that names *this* version (meta_NoHash): an index vouched for by this version has its schema
                        let names_this_version = hist.iter().any(|h| h["what"] == "meta_NoHash");
                        let variant = if names_this_version { 0 } else { real % 3 };
                        copy_dir(&ctx.work.join(format!("template_old{}/index", variant)), &index_path);
                        write_meta(&meta_path, "0.0.0-other", &ctx.hash);
                    }
                    ("OtherHash", "Old") => {
                        copy_dir(&ctx.work.join("template_old0/index"), &index_path);
                        write_meta(&meta_path, &ctx.version, "00000000000000000000000000000000");
                    }
                    other => panic!("unknown initial state {:?}", other),
                }
                trace.push(json!({"ev": "reset", "meta": exp_meta, "idx": exp_idx}));
            }
            "fault" => {
                match what {
                    "meta_Absent" => {
                        // "metadata missing" is realised in several ways: deleted, or moved aside (a stray copy next to it
                        // must not be mistaken for the metadata)
                        match real % 3 {
                            0 => {
                                let _ = std::fs::remove_file(&meta_path);
                            }
                            1 => {
                                let _ = std::fs::rename(&meta_path, data.join("meta.json.tmp"));
                            }
                            _ => {
                                let _ = std::fs::rename(&meta_path, data.join("meta.json.bak"));
                            }
                        }
                    }
                    "meta_Garbage" => {
                        let g: &[u8] = match i % 4 {
                            0 => b"",
                            1 => b"{\"version\":\"0.1.5\",\"database_ha",
                            2 => b"\x00\xff\xfe garbage \x80",
                            _ => b"[1, 2, 3]",
                        };
                        std::fs::write(&meta_path, g).unwrap();
                    }
                    "meta_NoHash" => {
                        // this build's version, the data hash lost: absent or null
                        let g = if i % 2 == 0 {
                            json!({"version": ctx.version})
                        } else {
                            json!({"version": ctx.version, "database_hash": null})
                        };
                        std::fs::write(&meta_path, serde_json::to_vec(&g).unwrap()).unwrap();
                    }
                    "idx_Absent" => {
                        let _ = std::fs::remove_dir_all(&index_path);
                    }
                    other => panic!("unknown fault {}", other),
                }
                trace.push(json!({"ev": "fault", "what": what}));
            }
            "run_disk" | "run_memory" => {
                let memory = kind == "run_memory";
                // the model has `docs_model` documents; the k-th of them stands for the
                // proportional position in the shipped sequence (the last for the last)
                let crash = if what == "ready" {
                    None
                } else if what == "add_document" {
                    let real = (n * ctx.shipped + docs_model - 1) / docs_model;
                    Some((what.to_string(), real.max(1)))
                } else if what == "partial_remove" {
                    // a kill in the middle of remove_dir_all: kill right before it starts,
                    // then take away part of the directory (below)
                    Some(("before_remove_index".to_string(), 1))
                } else {
                    Some((what.to_string(), 1))
                };
                let via_any = if use_any && !memory {
                    any_rot += 1;
                    Some(any_rot % ctx.any_queries.len())
                } else {
                    None
                };
                let run = run_start(ctx, &home, memory, crash.clone(), via_any);
                for e in &run.events {
                    if e["ev"] == "store" {
                        trace.push(json!({"ev": e["step"], "n": e["n"]}));
                    }
                }
                rec["status"] = json!(run.status);
                rec["via"] = json!(if via_any.is_some() { "any" } else { "helper" });
                if crash.is_some() {
                    if run.crashed {
                        if what == "partial_remove" {
                            partial_remove(&index_path);
                        }
                        trace.push(json!({"ev": "crash"}));
                    } else {
                        // the kill point the model passes through was never reached by the code
                        drifts.push(json!({"item": k, "what": "kill point not reached", "point": what, "status": run.status, "detail": run.detail}));
                        trace.push(json!({"ev": "exit"}));
                    }
                } else {
                    match run.answers {
                        Some(fresh) => {
                            trace.push(json!({"ev": "answers", "fresh": fresh}));
                            trace.push(json!({"ev": "exit"}));
                            rec["fresh"] = json!(fresh);
                            if !fresh {
                                violations.push(json!({"item": k, "what": "a start that was not killed does not answer as a freshly built database", "detail": run.detail}));
                            }
                        }
                        None => {
                            trace.push(json!({"ev": "failed"}));
                            violations.push(json!({"item": k, "what": "a start that was not killed neither answered nor rebuilt", "status": run.status, "detail": run.detail}));
                        }
                    }
                }
            }
            other => panic!("unknown item {}", other),
        }
        // project the real directory onto the specification's state and compare
        let got_meta = classify_meta(&meta_path, &ctx.version, &ctx.hash);
        let got_idx = classify_index(&index_path, ctx.shipped);
        rec["meta"] = json!(got_meta);
        rec["idx"] = json!(got_idx);
        rec["exp_meta"] = json!(exp_meta);
        rec["exp_idx"] = json!(exp_idx);
        let wrote_current = before_meta != "Current" && got_meta == "Current";
        before_meta = got_meta.clone();
        if kind != "init" && kind != "fault" && wrote_current && got_idx != "New" {
            violations.push(json!({"item": k, "what": "meta.json records the index as current although the committed index is not the shipped data", "meta": got_meta, "idx": got_idx}));
        } else if got_meta != exp_meta || got_idx != exp_idx {
            drifts.push(json!({"item": k, "what": "directory state differs from the specification's", "got": [got_meta, got_idx], "expected": [exp_meta, exp_idx]}));
        }
        items.push(rec);
    }
    let _ = std::fs::remove_dir_all(&home);
    json!({"i": i, "hist": hist, "items": items, "violations": violations, "drifts": drifts, "trace": trace})
}

/// `conform c15-replay --vectors F --out F --trace F --work DIR --repo /repo [--docs-model 2] [--jobs N]`
pub fn replay(args: &[String]) -> i32 {
    quiet_panics();
    let vectors = read_lines(&arg_value(args, "--vectors").expect("--vectors"));
    let out_path = arg_value(args, "--out").expect("--out");
    let trace_path = arg_value(args, "--trace").expect("--trace");
    let work = PathBuf::from(arg_value(args, "--work").expect("--work"));
    let repo = arg_value(args, "--repo").unwrap_or("/repo".into());
    let docs_model = arg_num(args, "--docs-model", 2);
    let jobs = arg_num(args, "--jobs", 12) as usize;
    // the driver hands over the schedules in batches (one process each): numbers go on from the batches before
    let offset = arg_num(args, "--offset", 0) as usize;
    let nq = arg_num(args, "--queries", 150) as usize;
    let _ = std::fs::remove_dir_all(&work);
    std::fs::create_dir_all(&work).unwrap();
    let exe = std::env::current_exe().unwrap();
    let any = exe.parent().unwrap().join("any");

    // reference: a freshly built in-memory database in this process
    let ref_home = work.join("ref_home");
    std::fs::create_dir_all(&ref_home).unwrap();
    std::env::set_var("XDG_DATA_HOME", &ref_home);
    std::env::set_var("HOME", &ref_home);
    let shipped = shipped_constants(&repo);
    let db = Db::in_memory().expect("in-memory db");
    // query set: facts' own words, typable, unambiguous (strictly best score) so that the
    // comparison is independent of tie-breaking (C14's subject)
    let mut queries = Vec::new();
    let step = (shipped.len() / nq.max(1)).max(1);
    let mut idx = 0;
    while idx < shipped.len() && queries.len() < nq {
        let c = &shipped[idx].1;
        idx += 1;
        let q = c.tokens.join(" ");
        if q.is_empty() || !q.chars().all(|ch| ch.is_ascii_lowercase() || ch == ' ') || q.split(' ').any(|w| w == "to") {
            continue;
        }
        let o = run_query(&db, &q, true);
        let unambiguous = o.events.iter().any(|e| {
            serde_json::from_str::<Value>(e).ok().map_or(false, |v| {
                v["ev"] == "lookup" && {
                    let top = v["top"].as_array().cloned().unwrap_or_default();
                    top.len() >= 1 && (top.len() == 1 || top[0][0] != top[1][0])
                }
            })
        });
        if o.results.len() == 1 && o.results[0].is_ok() && unambiguous {
            queries.push(q);
            idx += step - 1;
        }
    }
    let qfile = work.join("queries.txt");
    std::fs::write(&qfile, queries.join("\n") + "\n").unwrap();
    let reference: Vec<String> = queries
        .iter()
        .map(|q| json!({"q": q, "out": outcome_json(&run_query(&db, q, true))}).to_string())
        .collect();

    // templates: a directory written by this build; an index written for other data
    let good = work.join("template_good");
    std::fs::create_dir_all(&good).unwrap();
    let st = Command::new(&exe)
        .arg("c15-helper")
        .arg("--queries")
        .arg(&qfile)
        .env("XDG_DATA_HOME", &good)
        .env("HOME", &good)
        .env_remove("ANYTHING_VERIF_CRASH")
        .env_remove("ANYTHING_VERIF_TRACE")
        .stdout(Stdio::piped())
        .stderr(Stdio::piped())
        .output()
        .expect("template run");
    if !st.status.success() {
        eprintln!("template start failed: {:?} {}", st.status, String::from_utf8_lossy(&st.stderr));
        return 2;
    }
    let meta: Value = match std::fs::read(good.join("facts/meta.json")).ok().and_then(|b| serde_json::from_slice(&b).ok()) {
        Some(m) => m,
        None => {
            eprintln!("template start wrote no readable meta.json");
            return 2;
        }
    };
    let version = meta["version"].as_str().unwrap_or("").to_string();
    let hash = meta["database_hash"].as_str().unwrap_or("").to_string();
    for variant in 0..3 {
        mkold(&work.join(format!("template_old{}/index", variant)), variant);
    }
    // reference output of the real binary on a fresh good directory
    let mut any_queries = Vec::new();
    for q in queries.iter().step_by((queries.len() / 12).max(1)).take(12) {
        let home = work.join("any_ref");
        let _ = std::fs::remove_dir_all(&home);
        copy_dir(&good, &home);
        let mut cmd = Command::new(&any);
        cmd.arg("--exact");
        for w in q.split(' ') {
            cmd.arg(w);
        }
        let o = cmd
            .env("XDG_DATA_HOME", &home)
            .env("HOME", &home)
            .env("NO_COLOR", "1")
            .env_remove("ANYTHING_VERIF_CRASH")
            .env_remove("ANYTHING_VERIF_TRACE")
            .output()
            .expect("any");
        any_queries.push((q.clone(), String::from_utf8_lossy(&o.stdout).to_string()));
    }
    let ctx = Arc::new(Ctx {
        exe,
        any,
        work: work.clone(),
        version,
        hash,
        shipped: shipped.len() as u64,
        qfile: qfile.to_str().unwrap().to_string(),
        reference,
        any_queries,
    });
    let vectors: Arc<Vec<Value>> = Arc::new(vectors.iter().map(|l| serde_json::from_str(l).expect("vector json")).collect());
    let next = Arc::new(AtomicUsize::new(0));
    let results: Arc<Mutex<Vec<(usize, Value)>>> = Arc::new(Mutex::new(Vec::new()));
    let mut handles = Vec::new();
    for _ in 0..jobs {
        let (ctx, vectors, next, results) = (ctx.clone(), vectors.clone(), next.clone(), results.clone());
        handles.push(std::thread::spawn(move || loop {
            let i = next.fetch_add(1, Ordering::SeqCst);
            if i >= vectors.len() {
                break;
            }
            let r = run_vector(&ctx, offset + i, &vectors[i], docs_model);
            results.lock().unwrap().push((offset + i, r));
        }));
    }
    for h in handles {
        h.join().unwrap();
    }
    let mut results = std::mem::take(&mut *results.lock().unwrap());
    results.sort_by_key(|r| r.0);
    let mut out = Out::create(&out_path);
    let mut tr = Out::create(&trace_path);
    for (i, r) in &results {
        for e in r["trace"].as_array().unwrap() {
            let mut e = e.clone();
            e["vec"] = json!(i);
            tr.line(&e);
        }
        let mut r = r.clone();
        r.as_object_mut().unwrap().remove("trace");
        out.line(&r);
    }
    out.finish();
    tr.finish();
    println!(
        "{}",
        json!({"vectors": results.len(), "queries": ctx.reference.len(), "shipped": ctx.shipped, "version": ctx.version,
               "any_queries": ctx.any_queries.len(), "sample_queries": queries.iter().take(5).collect::<Vec<_>>()})
    );
    let _ = std::fs::remove_dir_all(&work);
    0
}
