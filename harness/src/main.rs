//! `conform`: the Rust side of the conformance checks.  Every subcommand either replays
//! TLC-generated vectors into the real code (`*-replay`) or records what the real code does
//! as ndjson for validation against the TLA+ specification (`*-trace`).
mod c12;
mod c14;
mod c15;
mod c16;
mod common;
mod facts;
mod lang;

fn main() {
    let args: Vec<String> = std::env::args().skip(1).collect();
    let cmd = args.first().map(|s| s.as_str()).unwrap_or("");
    let rest = &args[args.len().min(1)..];
    let code = match cmd {
        "c14-trace" => c14::trace(rest),
        "c14-build" => c14::build(rest),
        "c14-concurrent" => c14::concurrent(rest),
        "lang-trace" => lang::trace(rest),
        "c12-sweep" => c12::sweep(rest),
        "c07-record" => lang::literals(rest),
        "c08-record" => lang::display(rest),
        "facts-list" => facts::list(rest),
        "c16-record" => c16::facts(rest),
        "c17-record" => c16::codec(rest),
        "c18-record" => c16::describe(rest),
        "c19-record" => c16::cli(rest),
        "c15-helper" => c15::helper(rest),
        "c15-replay" => c15::replay(rest),
        _ => {
            eprintln!("unknown subcommand {:?}", cmd);
            2
        }
    };
    std::process::exit(code);
}
