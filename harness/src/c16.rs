//! C16 / C17 / C18: facts looked up by their own words, serialisation round trips, describe on/off
//! and sessions of queries on one database.

use crate::common::*;
use crate::lang::{limbs, Ids};
use anything::{Compound, Constant, Db, Rational};
use serde_json::{json, Value};
use std::collections::BTreeMap;

fn private_home(tag: &str) -> std::path::PathBuf {
    let home = std::env::temp_dir().join(format!("conform-{}-{}", tag, std::process::id()));
    let _ = std::fs::remove_dir_all(&home);
    std::fs::create_dir_all(&home).unwrap();
    std::env::set_var("XDG_DATA_HOME", &home);
    std::env::set_var("HOME", &home);
    home
}

/// build an in-memory database with the hooks on; returns it with the map document key -> shipped position (1-based)
fn build_db() -> (Db, BTreeMap<String, usize>) {
    anything::verif::take();
    anything::verif::enable(true);
    let db = Db::in_memory().expect("in-memory database");
    anything::verif::enable(false);
    let mut pos = BTreeMap::new();
    let mut i = 0usize;
    for e in anything::verif::take() {
        if let Ok(v) = serde_json::from_str::<Value>(&e) {
            if v["ev"] == "doc" {
                i += 1;
                pos.entry(v["key"].as_str().unwrap().to_string()).or_insert(i);
            }
        }
    }
    (db, pos)
}

fn cbor_value<T: serde::Serialize>(t: &T) -> serde_cbor::Value {
    serde_cbor::value::to_value(t).expect("to cbor value")
}

/// `conform c16-record --in PHRASES --out FILE --repo /repo`
/// PHRASES: ndjson {"i": shipped position, "words": [..]}.  For each: look the words up (describe on) and record
/// the constant that was returned, compared field by field with the independently decoded shipped constants.
pub fn facts(args: &[String]) -> i32 {
    quiet_panics();
    let inp = arg_value(args, "--in").expect("--in");
    let outp = arg_value(args, "--out").expect("--out");
    let repo = arg_value(args, "--repo").unwrap_or("/repo".into());
    let home = private_home("c16");
    let shipped = shipped_constants(&repo);
    let sources = shipped_sources(&repo);
    // --session reopened: the database as every start of `any` but the first has it -- the on-disk index of the (private) data
    // directory, built by one start and opened again by the next
    let db = if arg_value(args, "--session").as_deref() == Some("reopened") {
        drop(Db::open().expect("first start on the private data directory"));
        Db::open().expect("second start on the same data directory")
    } else {
        build_db().0
    };
    let mut out = Out::create(&outp);
    let mut n = 0usize;
    for line in read_lines(&inp) {
        let v: Value = serde_json::from_str(&line).expect("phrase");
        let words: Vec<String> = v["words"].as_array().unwrap().iter().map(|w| w.as_str().unwrap().to_string()).collect();
        let phrase = words.join(" ");
        let o = run_query(&db, &phrase, true);
        let mut rec = json!({"id": n + 1, "i": v["i"], "words": words, "text": phrase, "src": crate::lang::char_names(&phrase),
                             "found": false, "tokens": [], "complete": false, "why": ""});
        let single_ok = o.results.len() == 1 && o.results[0].is_ok() && o.panic.is_none();
        if single_ok && o.descriptions.len() == 1 {
            // the constant behind the description: find it among the shipped ones by description and tokens
            let desc = &o.descriptions[0].1;
            let value = o.results[0].as_ref().unwrap();
            let hit = shipped.iter().find(|(_, c)| {
                c.description == *desc && cbor_value(&value.value) == c.value && cbor_value(&value.unit) == c.unit
            });
            rec["found"] = json!(true);
            match hit {
                Some((_, c)) => {
                    rec["tokens"] = json!(c.tokens);
                    // the source the library resolves must be the shipped source with that identifier
                    let source_ok = match c.source {
                        Some(id) => match (db.get_source(id), sources.get(&id)) {
                            (Some(s), Some((d, u))) => s.id == id && *s.description == **d && s.url.as_deref().map(|x| x.to_string()) == *u,
                            _ => false,
                        },
                        None => true,
                    };
                    rec["complete"] = json!(source_ok && !c.description.is_empty());
                    if !source_ok {
                        rec["why"] = json!("the source of the constant does not resolve to the shipped source with its identifier");
                    }
                }
                None => {
                    rec["why"] = json!(format!("the returned constant ({}) is not one of the shipped constants, field by field", desc));
                }
            }
        } else {
            rec["why"] = json!(match (&o.panic, o.results.first()) {
                (Some(p), _) => format!("panic: {}", p),
                (_, Some(Err((m, _, _)))) => m.clone(),
                _ => format!("{} results, {} descriptions", o.results.len(), o.descriptions.len()),
            });
        }
        out.line(&rec);
        n += 1;
    }
    out.finish();
    let _ = std::fs::remove_dir_all(&home);
    println!("{}", json!({"records": n, "shipped": shipped.len()}));
    0
}

/// `conform c17-record --out FILE --repo /repo --ids vocab/ids.json --units FILE --rationals FILE`
///   units FILE: one unit expression per line (JSON strings); rationals FILE: ndjson {"n": "..", "d": ".."}
pub fn codec(args: &[String]) -> i32 {
    quiet_panics();
    let outp = arg_value(args, "--out").expect("--out");
    let repo = arg_value(args, "--repo").unwrap_or("/repo".into());
    let ids = Ids::load(&arg_value(args, "--ids").expect("--ids"));
    let units_in = arg_value(args, "--units").expect("--units");
    let rats_in = arg_value(args, "--rationals").expect("--rationals");
    let names_in = arg_value(args, "--names").expect("--names");
    let mut out = Out::create(&outp);
    let mut n = 0usize;
    let mut line = |v: Value, n: &mut usize| {
        *n += 1;
        let mut v = v;
        v["id"] = json!(*n);
        out.line(&v);
    };
    // (a) every unit by a name: the identifier it is written with, and the round trip
    for l in read_lines(&names_in) {
        let v: Value = serde_json::from_str(&l).unwrap();
        let (key, name) = (v["key"].as_str().unwrap(), v["name"].as_str().unwrap());
        let r = std::panic::catch_unwind(|| {
            let c: Compound = match name.parse() {
                Ok(c) => c,
                Err(_) => return Ok((Vec::new(), false, true)), // not a unit on its own: not parsed, nothing to round-trip
            };
            let names = unit_names(&c);
            let bytes = serde_cbor::to_vec(&c).map_err(|e| e.to_string())?;
            let back: Compound = serde_cbor::from_slice(&bytes).map_err(|e| e.to_string())?;
            // (JSON is required of rationals only: a map keyed by units has no JSON form)
            Ok::<_, String>((names, back == c, true))
        });
        match r {
            Ok(Ok((names, cbor_ok, json_ok))) => {
                let written = names.first().map(|x| x.0.clone()).unwrap_or_default();
                line(json!({"kind": if key == "?" { "unit_unknown" } else { "unit" }, "key": key, "name": name, "ok": names.len() == 1, "written": written.trim_start_matches('#'),
                            "derived": written.starts_with('#'), "reads_as": ids.key(&written), "cbor": cbor_ok, "json": json_ok, "err": ""}), &mut n);
            }
            Ok(Err(e)) => line(json!({"kind": if key == "?" { "unit_unknown" } else { "unit" }, "key": key, "name": name, "ok": false, "written": "", "derived": false, "reads_as": "", "cbor": false, "json": false, "err": e}), &mut n),
            Err(e) => line(json!({"kind": "unit", "key": key, "name": name, "ok": false, "written": "", "derived": false, "reads_as": "", "cbor": false, "json": false, "err": panic_text(e)}), &mut n),
        }
    }
    // (b) compounds
    for l in read_lines(&units_in) {
        let text: String = serde_json::from_str(&l).unwrap();
        let r = std::panic::catch_unwind(|| {
            let c: Compound = match text.parse() {
                Ok(c) => c,
                Err(_) => return Ok(None),
            };
            let bytes = serde_cbor::to_vec(&c).map_err(|e| format!("encode: {}", e))?;
            let back: Compound = serde_cbor::from_slice(&bytes).map_err(|e| format!("cbor decode: {}", e))?;
            Ok::<_, String>(Some((unit_json(&c), unit_json(&back), unit_json(&c))))
        });
        match r {
            Ok(Ok(Some((a, b, c)))) => line(json!({"kind": "compound", "text": text, "parsed": true, "before": a, "cbor": b, "json": c, "err": ""}), &mut n),
            Ok(Ok(None)) => line(json!({"kind": "compound", "text": text, "parsed": false, "before": [], "cbor": [], "json": [], "err": ""}), &mut n),
            Ok(Err(e)) => line(json!({"kind": "compound", "text": text, "parsed": true, "before": [["?", 0, 0]], "cbor": [], "json": [], "err": e}), &mut n),
            Err(e) => line(json!({"kind": "compound", "text": text, "parsed": true, "before": [["?", 0, 0]], "cbor": [], "json": [], "err": panic_text(e)}), &mut n),
        }
    }
    // (c) rationals
    for l in read_lines(&rats_in) {
        let v: Value = serde_json::from_str(&l).unwrap();
        let (ns, ds) = (v["n"].as_str().unwrap(), v["d"].as_str().unwrap());
        let r = std::panic::catch_unwind(|| {
            let num: num::BigInt = ns.parse().unwrap();
            let den: num::BigInt = ds.parse().unwrap();
            let x = Rational::new(num, den);
            let show = |r: &Rational| format!("{}/{}", r.numer(), r.denom());
            let cb: Result<Rational, String> = serde_cbor::to_vec(&x).map_err(|e| e.to_string()).and_then(|b| serde_cbor::from_slice(&b).map_err(|e| e.to_string()));
            let js: Result<Rational, String> = serde_json::to_string(&x).map_err(|e| e.to_string()).and_then(|s| serde_json::from_str(&s).map_err(|e| e.to_string()));
            (show(&x), cb.as_ref().map(show).unwrap_or_else(|e| format!("error: {}", e)), js.as_ref().map(show).unwrap_or_else(|e| format!("error: {}", e)))
        });
        match r {
            Ok((a, b, c)) => line(json!({"kind": "rational", "before": a, "cbor": b, "json": c}), &mut n),
            Err(e) => line(json!({"kind": "rational", "before": format!("{}/{}", ns, ds), "cbor": format!("panic: {}", panic_text(e)), "json": ""}), &mut n),
        }
    }
    // (d) every shipped constant: decode with the library's type, encode again, compare with the shipped value
    let dir = format!("{}/db", repo);
    let mut files: Vec<String> = std::fs::read_dir(&dir).unwrap().map(|e| e.unwrap().file_name().to_string_lossy().to_string()).filter(|f| f.ends_with(".bin.gz") && f != "sources.bin.gz").collect();
    files.sort();
    #[derive(serde::Deserialize)]
    struct Raw {
        #[serde(default)]
        constants: Vec<serde_cbor::Value>,
    }
    let mut total = 0usize;
    for f in &files {
        let rd = flate2::read::GzDecoder::new(std::fs::File::open(format!("{}/{}", dir, f)).unwrap());
        let raw: Result<Raw, _> = serde_cbor::from_reader(rd);
        let raw = match raw {
            Ok(r) => r,
            Err(e) => {
                line(json!({"kind": "file", "file": f, "ok": false, "err": e.to_string()}), &mut n);
                continue;
            }
        };
        for (i, v) in raw.constants.iter().enumerate() {
            total += 1;
            let r = std::panic::catch_unwind(|| {
                let c: Constant = serde_cbor::value::from_value(v.clone()).map_err(|e| format!("decode: {}", e))?;
                let again = cbor_value(&c);
                // unit names as the build under test reads them
                Ok::<_, String>((again == *v, unit_json(&c.unit), c.description.to_string()))
            });
            match r {
                Ok(Ok((same, units, desc))) => line(json!({"kind": "constant", "file": f, "i": i + 1, "decoded": true, "same": same, "units": units, "description": desc, "err": ""}), &mut n),
                Ok(Err(e)) => line(json!({"kind": "constant", "file": f, "i": i + 1, "decoded": false, "same": false, "units": [], "description": "", "err": e}), &mut n),
                Err(e) => line(json!({"kind": "constant", "file": f, "i": i + 1, "decoded": false, "same": false, "units": [], "description": "", "err": panic_text(e)}), &mut n),
            }
        }
    }
    line(json!({"kind": "count", "constants": total, "files": files.len()}), &mut n);
    out.finish();
    println!("{}", json!({"records": n, "constants": total}));
    0
}

/// `conform c18-record --in QUERIES --out FILE --ids vocab/ids.json --seed N --fresh K`
/// Every query is evaluated on one shared database with descriptions off and on, in two different orders, and the
/// first K of them additionally each on a database of their own.  One record per evaluation.
pub fn describe(args: &[String]) -> i32 {
    quiet_panics();
    let inp = arg_value(args, "--in").expect("--in");
    let outp = arg_value(args, "--out").expect("--out");
    let ids = Ids::load(&arg_value(args, "--ids").expect("--ids"));
    let seed = arg_num(args, "--seed", 1);
    let fresh = arg_num(args, "--fresh", 20) as usize;
    let repo = arg_value(args, "--repo").unwrap_or("/repo".into());
    let home = private_home("c18");
    let shipped = shipped_constants(&repo);
    let queries: Vec<String> = read_lines(&inp).iter().map(|l| serde_json::from_str::<String>(l).unwrap_or_else(|_| l.clone())).collect();
    let mut out = Out::create(&outp);
    let mut n = 0usize;
    let mut eval = |db: &Db, pos: &BTreeMap<String, usize>, q: usize, session: &str, describe: bool, out: &mut Out, n: &mut usize| {
        let o = run_query(db, &queries[q], describe);
        let res: Vec<Value> = o.results.iter().map(|r| match r {
            Ok(v) => crate::lang::value_json(v, &ids),
            Err((m, a, b)) => json!({"k": "err", "msg": m, "a": a, "b": b}),
        }).collect();
        let mut lookups = Vec::new();
        for e in &o.events {
            if let Ok(v) = serde_json::from_str::<Value>(e) {
                if v["ev"] == "lookup" {
                    let win = v["top"].as_array().and_then(|t| t.first()).and_then(|t| t[1].as_str()).and_then(|k| pos.get(k)).copied().unwrap_or(0);
                    lookups.push(json!([v["phrase"], win]));
                }
            }
        }
        // each description: the phrase and the shipped position of the constant it carries
        let descs: Vec<Value> = o.descriptions.iter().map(|(p, d)| {
            let i = shipped.iter().position(|(_, c)| c.description == *d).map(|i| i + 1).unwrap_or(0);
            json!([p, i])
        }).collect();
        *n += 1;
        out.line(&json!({"id": *n, "q": q + 1, "text": queries[q], "session": session, "describe": describe, "res": res,
                         "lookups": lookups, "descs": descs, "panic": o.panic.clone().unwrap_or_default()}));
    };
    let (db, pos) = build_db();
    let mut rng = Rng::new(seed);
    let mut order: Vec<usize> = (0..queries.len()).collect();
    for (pass, describe) in [(0, false), (1, true), (2, true), (3, false)] {
        if pass >= 2 {
            for i in (1..order.len()).rev() {
                let j = rng.below(i as u64 + 1) as usize;
                order.swap(i, j);
            }
        }
        for &q in &order {
            eval(&db, &pos, q, "shared", describe, &mut out, &mut n);
        }
    }
    drop(db);
    for q in 0..fresh.min(queries.len()) {
        let (db, pos) = build_db();
        eval(&db, &pos, q, "alone", q % 2 == 0, &mut out, &mut n);
    }
    out.finish();
    let _ = std::fs::remove_dir_all(&home);
    println!("{}", json!({"records": n, "queries": queries.len()}));
    0
}

/// run the `any` binary on one query; the child is killed if it has not finished after `secs` seconds
fn run_binary(any: &str, home: &std::path::Path, mode: &str, q: &str, secs: u64) -> (String, String, i32, bool) {
    use std::io::Read;
    let mut cmd = std::process::Command::new(any);
    cmd.env("XDG_DATA_HOME", home).env("HOME", home).env("NO_COLOR", "1").env_remove("RUST_LOG").env_remove("ANYTHING_VERIF_TRACE").env_remove("ANYTHING_VERIF_CRASH");
    match mode {
        "exact" => {
            cmd.arg("--exact").arg("--").arg(q);
        }
        "describe" => {
            cmd.arg("--describe").arg("--").arg(q);
        }
        "describe_after" if !q.trim_start().starts_with('-') && !q.is_empty() => {
            // the flag behind the query (a query that starts with `-` would itself be read as a flag)
            cmd.arg(q).arg("--describe");
        }
        "describe_after" => {
            cmd.arg("--describe").arg("--").arg(q);
        }
        "syntax" => {
            cmd.arg("--syntax").arg("--").arg(q);
        }
        "words" => {
            // the query as the shell hands it over unquoted: one argument per blank-separated piece (any.rs joins them by one blank)
            cmd.arg("--");
            for piece in q.split(' ') {
                cmd.arg(piece);
            }
        }
        _ => {
            cmd.arg("--").arg(q);
        }
    }
    cmd.stdout(std::process::Stdio::piped()).stderr(std::process::Stdio::piped());
    let mut child = match cmd.spawn() {
        Ok(c) => c,
        Err(e) => return (String::new(), format!("spawn: {}", e), -2, false),
    };
    // the output of one query is small: reading after the exit cannot block on a full pipe
    let start = std::time::Instant::now();
    let mut timed_out = false;
    let status = loop {
        match child.try_wait() {
            Ok(Some(st)) => break Some(st),
            Ok(None) => {
                if start.elapsed().as_secs() >= secs {
                    let _ = child.kill();
                    let _ = child.wait();
                    timed_out = true;
                    break None;
                }
                std::thread::sleep(std::time::Duration::from_millis(2));
            }
            Err(_) => break None,
        }
    };
    let (mut so, mut se) = (String::new(), String::new());
    if let Some(mut o) = child.stdout.take() {
        let mut b = Vec::new();
        let _ = o.read_to_end(&mut b);
        so = String::from_utf8_lossy(&b).to_string();
    }
    if let Some(mut e) = child.stderr.take() {
        let mut b = Vec::new();
        let _ = e.read_to_end(&mut b);
        se = String::from_utf8_lossy(&b).to_string();
    }
    (so, se, status.and_then(|s| s.code()).unwrap_or(if timed_out { -9 } else { -1 }), timed_out)
}

/// `conform c19-record --in QUERIES --out FILE --any PATH --work DIR`
/// Every query is run through the real `any` binary (default, --exact and --describe) under a private data directory
/// and evaluated in-process with the library; both are recorded.
pub fn cli(args: &[String]) -> i32 {
    quiet_panics();
    let inp = arg_value(args, "--in").expect("--in");
    let outp = arg_value(args, "--out").expect("--out");
    let any = arg_value(args, "--any").expect("--any");
    let ids = arg_value(args, "--ids").map(|p| Ids::load(&p));
    let modes4 = args.iter().any(|a| a == "--modes4");
    let forced = arg_value(args, "--mode");
    let home = private_home("c19");
    let db = Db::open().expect("on-disk database in the private directory");
    let queries: Vec<String> = read_lines(&inp).iter().map(|l| serde_json::from_str::<String>(l).unwrap_or_else(|_| l.clone())).collect();
    let mut out = Out::create(&outp);
    let mut n = 0usize;
    let mut spec = anything::rational::DisplaySpec::default();
    spec.limit = 12;
    spec.exponent_limit = 12;
    for (qi, q) in queries.iter().enumerate() {
        let mode = if let Some(m) = &forced { m.as_str() } else if modes4 { ["default", "exact", "describe", "describe_after", "words"][qi % 5] } else { ["default", "exact", "describe"][qi % 3] };
        let describe_mode = mode == "describe" || mode == "describe_after";
        // the binary first, under a deadline: a query it never returns from is not evaluated in process (it would hang here too)
        let (stdout, stderr, code, timed_out) = run_binary(&any, &home, mode, q, 20);
        if timed_out {
            n += 1;
            out.line(&json!({"id": n, "text": q, "mode": mode, "plain": false, "results": [], "descs": [], "lib_panic": "not evaluated: the binary did not finish within 20 s",
                             "lib_parse_error": "", "stdout": [], "stderr": ["no result after 20 s: killed"], "exit": code, "timeout": true}));
            continue;
        }
        let o = run_query(&db, q, describe_mode);
        let results: Vec<Value> = o.results.iter().map(|r| match r {
            Ok(v) => json!({"k": "val", "u": ids.as_ref().map(|i| crate::lang::units_json(&unit_names(&v.unit), i)).unwrap_or_else(|| json!([])), "msg": "",
                            "num": v.value.numer().to_string(), "den": v.value.denom().to_string(),
                            "decimal": v.value.display(&spec).to_string(), "has_numerator": v.unit.has_numerator(), "s": 0, "e": 0,
                            "unit_plural": v.unit.display(true).to_string(), "unit_singular": v.unit.display(false).to_string()}),
            // msg1: the message up to its first line break, as the first line of the diagnostic shows it
            Err((m, es, ee)) => json!({"k": "err", "s": es, "e": ee, "msg": m, "msg1": format!("error: {}", m).lines().next().unwrap_or("error: ")["error: ".len()..].to_string(), "u": [], "num": "", "den": "", "decimal": "", "has_numerator": false, "unit_plural": "", "unit_singular": ""}),
        }).collect();
        // description block as the library reports it: query, description, source description and url
        let mut descs = Vec::new();
        {
            let parsed = anything::parse(q);
            if let Ok(parsed) = parsed {
                let mut ds = Vec::new();
                let opts = if describe_mode { anything::Options::default().describe() } else { anything::Options::default() };
                let r = std::panic::catch_unwind(std::panic::AssertUnwindSafe(|| {
                    for _ in anything::query(&parsed, &db, opts, &mut ds) {}
                }));
                if r.is_ok() {
                    for d in ds {
                        match d {
                            anything::Description::Constant(p, c) => {
                                let (sd, url) = match c.source.and_then(|id| db.get_source(id)) {
                                    Some(s) => (s.description.to_string(), s.url.as_ref().map(|u| u.to_string()).unwrap_or_default()),
                                    None => (String::new(), String::new()),
                                };
                                descs.push(json!({"phrase": p.to_string(), "description": c.description.to_string(), "has_source": c.source.and_then(|id| db.get_source(id)).is_some(),
                                                  "source": sd, "url": url}));
                            }
                        }
                    }
                }
            }
        }
        n += 1;
        // for the syntax dump: the characters (names of Lexer.tla) and how `{:?}` spells each of them inside a string
        let (src, dbg) = if mode == "syntax" {
            (crate::lang::char_names(q), q.chars().map(|c| { let s = format!("{:?}", c.to_string()); s[1..s.len() - 1].to_string() }).collect::<Vec<_>>())
        } else {
            (Vec::new(), Vec::new())
        };
        // plain: one line of printable ASCII, for which the diagnostic block is prescribed in full (Cli.tla, DiagBlock)
        let plain = !q.is_empty() && q.chars().all(|c| (' '..='~').contains(&c));
        out.line(&json!({"id": n, "text": q, "mode": mode, "plain": plain, "results": results, "descs": descs, "lib_panic": o.panic.clone().unwrap_or_default(),
                         "src": src, "dbg": dbg, "lib_parse_error": o.parse_error.clone().unwrap_or_default(),
                         "stdout": stdout.lines().collect::<Vec<_>>(), "stderr": stderr.lines().take(5).collect::<Vec<_>>(), "exit": code}));
    }
    out.finish();
    let _ = std::fs::remove_dir_all(&home);
    println!("{}", json!({"records": n}));
    0
}

#[allow(dead_code)]
fn unused(_: &[u32]) {
    let _ = limbs("0");
}
