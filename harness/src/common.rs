//! Shared plumbing: deterministic random numbers, projections of library values to JSON
//! (numbers as decimal strings, units as `[name, power, prefix]`), running a query under
//! `catch_unwind` with the hooks recording.

use anything::{Compound, Db, Numeric, Options};
use serde_json::{json, Value};
use std::io::{BufRead, Write};

pub struct Rng(pub u64);

impl Rng {
    pub fn new(seed: u64) -> Self {
        let mut r = Rng(seed ^ 0x9E3779B97F4A7C15);
        if r.0 == 0 {
            r.0 = 0x2545F4914F6CDD1D;
        }
        for _ in 0..8 {
            r.next();
        }
        r
    }
    pub fn next(&mut self) -> u64 {
        self.0 ^= self.0 << 13;
        self.0 ^= self.0 >> 7;
        self.0 ^= self.0 << 17;
        self.0.wrapping_mul(0x2545F4914F6CDD1D)
    }
    pub fn below(&mut self, n: u64) -> u64 {
        if n == 0 {
            0
        } else {
            self.next() % n
        }
    }
    pub fn range(&mut self, lo: i64, hi: i64) -> i64 {
        lo + self.below((hi - lo + 1) as u64) as i64
    }
    pub fn chance(&mut self, num: u64, den: u64) -> bool {
        self.below(den) < num
    }
    pub fn pick<'a, T>(&mut self, xs: &'a [T]) -> &'a T {
        &xs[self.below(xs.len() as u64) as usize]
    }
}

/// `(name, power, prefix)` for every constituent of a compound unit, obtained from the
/// public serde implementation (no access to private fields): base units by variant name,
/// derived units as `#<id>` -- the same naming the in-crate hooks use.
pub fn unit_names(c: &Compound) -> Vec<(String, i32, i32)> {
    let bytes = serde_cbor::to_vec(c).expect("compound to cbor");
    let v: serde_cbor::Value = serde_cbor::from_slice(&bytes).expect("cbor value");
    let mut out = Vec::new();
    let names = match &v {
        serde_cbor::Value::Map(m) => m
            .iter()
            .find(|(k, _)| matches!(k, serde_cbor::Value::Text(t) if t == "names"))
            .map(|(_, v)| v.clone()),
        _ => None,
    };
    if let Some(serde_cbor::Value::Map(m)) = names {
        for (k, st) in m {
            let name = match k {
                serde_cbor::Value::Text(t) => t.clone(),
                serde_cbor::Value::Map(d) => match d.iter().next() {
                    Some((_, serde_cbor::Value::Integer(i))) => format!("#{}", i),
                    _ => "?".to_string(),
                },
                _ => "?".to_string(),
            };
            let (mut power, mut prefix) = (0i32, 0i32);
            if let serde_cbor::Value::Map(s) = st {
                for (sk, sv) in s {
                    if let (serde_cbor::Value::Text(t), serde_cbor::Value::Integer(i)) = (sk, sv.clone()) {
                        if t == "power" {
                            power = i as i32
                        }
                        if t == "prefix" {
                            prefix = i as i32
                        }
                    }
                }
            }
            out.push((name, power, prefix));
        }
    }
    out
}

pub fn unit_json(c: &Compound) -> Value {
    Value::Array(
        unit_names(c)
            .into_iter()
            .map(|(n, p, x)| json!([n, p, x]))
            .collect(),
    )
}

pub fn numeric_json(n: &Numeric) -> Value {
    json!({"n": n.value.numer().to_string(), "d": n.value.denom().to_string(), "u": unit_json(&n.unit),
           "disp": n.unit.display(false).to_string()})
}

#[derive(Debug)]
pub struct Outcome {
    /// one entry per result of the query
    pub results: Vec<Result<Numeric, (String, usize, usize)>>,
    pub descriptions: Vec<(String, String)>,
    pub events: Vec<String>,
    pub panic: Option<String>,
    pub parse_error: Option<String>,
}

pub fn panic_text(e: Box<dyn std::any::Any + Send>) -> String {
    if let Some(s) = e.downcast_ref::<&str>() {
        s.to_string()
    } else if let Some(s) = e.downcast_ref::<String>() {
        s.clone()
    } else {
        "panic".to_string()
    }
}

pub fn quiet_panics() {
    // (a panic of the harness itself -- outside any catch_unwind -- would otherwise end the process without a word)
    std::panic::set_hook(Box::new(|info| {
        if std::env::var("CONFORM_SHOW_PANICS").is_ok() {
            eprintln!("panic: {}", info);
        }
    }));
}

/// Evaluate one query string completely (all results), hooks recording, panics caught.
pub fn run_query(db: &Db, src: &str, describe: bool) -> Outcome {
    anything::verif::take();
    anything::verif::enable(true);
    let r = std::panic::catch_unwind(std::panic::AssertUnwindSafe(|| {
        let parsed = match anything::parse(src) {
            Ok(p) => p,
            Err(e) => return (Vec::new(), Vec::new(), Some(e.to_string())),
        };
        let mut descriptions = Vec::new();
        let options = if describe {
            Options::default().describe()
        } else {
            Options::default()
        };
        let mut results = Vec::new();
        for r in anything::query(&parsed, db, options, &mut descriptions) {
            results.push(match r {
                Ok(n) => Ok(n),
                Err(e) => {
                    let range = e.range();
                    Err((e.to_string(), range.start, range.end))
                }
            });
        }
        let ds = descriptions
            .into_iter()
            .map(|d| match d {
                anything::Description::Constant(q, c) => (q.to_string(), c.description.to_string()),
            })
            .collect();
        (results, ds, None)
    }));
    anything::verif::enable(false);
    let events = anything::verif::take();
    match r {
        Ok((results, descriptions, parse_error)) => Outcome {
            results,
            descriptions,
            events,
            panic: None,
            parse_error,
        },
        Err(e) => Outcome {
            results: Vec::new(),
            descriptions: Vec::new(),
            events,
            panic: Some(panic_text(e)),
            parse_error: None,
        },
    }
}

pub fn outcome_json(o: &Outcome) -> Value {
    let results: Vec<Value> = o
        .results
        .iter()
        .map(|r| match r {
            Ok(n) => numeric_json(n),
            Err((m, a, b)) => json!({"err": m, "a": a, "b": b}),
        })
        .collect();
    json!({"results": results, "panic": o.panic, "parse_error": o.parse_error,
           "descriptions": o.descriptions.iter().map(|(q, d)| json!([q, d])).collect::<Vec<_>>()})
}

pub fn read_lines(path: &str) -> Vec<String> {
    let f = std::fs::File::open(path).unwrap_or_else(|e| panic!("open {}: {}", path, e));
    std::io::BufReader::new(f)
        .lines()
        .map(|l| l.unwrap())
        .filter(|l| !l.trim().is_empty())
        .collect()
}

pub struct Out {
    w: std::io::BufWriter<std::fs::File>,
}

impl Out {
    pub fn create(path: &str) -> Self {
        Out {
            w: std::io::BufWriter::new(
                std::fs::File::create(path).unwrap_or_else(|e| panic!("create {}: {}", path, e)),
            ),
        }
    }
    pub fn append(path: &str) -> Self {
        Out {
            w: std::io::BufWriter::new(
                std::fs::OpenOptions::new().append(true).create(true).open(path).unwrap_or_else(|e| panic!("append {}: {}", path, e)),
            ),
        }
    }
    pub fn line(&mut self, v: &Value) {
        writeln!(self.w, "{}", v).unwrap();
    }
    pub fn finish(mut self) {
        self.w.flush().unwrap();
    }
}

/// Every shipped constant in shipped order (file name order as rust-embed iterates, then
/// position), decoded from /repo/db with serde_cbor directly -- independent of the library's
/// own loader.
#[derive(Debug, Clone, serde::Deserialize)]
pub struct RawConstant {
    #[serde(default)]
    pub tokens: Vec<String>,
    #[serde(default)]
    pub description: String,
    #[serde(default)]
    pub source: Option<u64>,
    pub value: serde_cbor::Value,
    pub unit: serde_cbor::Value,
}

#[derive(Debug, serde::Deserialize)]
struct RawDoc {
    #[serde(default)]
    constants: Vec<RawConstant>,
}

pub fn shipped_constants(repo: &str) -> Vec<(String, RawConstant)> {
    let dir = format!("{}/db", repo);
    let mut names: Vec<String> = std::fs::read_dir(&dir)
        .unwrap_or_else(|e| panic!("read {}: {}", dir, e))
        .map(|e| e.unwrap().file_name().to_string_lossy().to_string())
        .filter(|n| n.ends_with(".bin.gz") && n != "sources.bin.gz")
        .collect();
    names.sort();
    let mut out = Vec::new();
    for n in names {
        let f = std::fs::File::open(format!("{}/{}", dir, n)).unwrap();
        let doc: RawDoc = serde_cbor::from_reader(flate2::read::GzDecoder::new(f))
            .unwrap_or_else(|e| panic!("decode {}: {}", n, e));
        for c in doc.constants {
            out.push((n.clone(), c));
        }
    }
    out
}

pub fn arg_value(args: &[String], name: &str) -> Option<String> {
    args.iter()
        .position(|a| a == name)
        .and_then(|i| args.get(i + 1).cloned())
}

pub fn arg_num(args: &[String], name: &str, default: u64) -> u64 {
    arg_value(args, name)
        .map(|v| v.parse().unwrap_or_else(|_| panic!("bad number for {}", name)))
        .unwrap_or(default)
}


/// shipped sources (identifier -> description, url), decoded independently of the library
pub fn shipped_sources(repo: &str) -> std::collections::BTreeMap<u64, (String, Option<String>)> {
    #[derive(serde::Deserialize)]
    struct RawSource {
        id: u64,
        description: String,
        #[serde(default)]
        url: Option<String>,
    }
    #[derive(serde::Deserialize)]
    struct RawSources {
        #[serde(default)]
        sources: Vec<RawSource>,
    }
    let mut out = std::collections::BTreeMap::new();
    if let Ok(f) = std::fs::File::open(format!("{}/db/sources.bin.gz", repo)) {
        if let Ok(raw) = serde_cbor::from_reader::<RawSources, _>(flate2::read::GzDecoder::new(f)) {
            for s in raw.sources {
                out.insert(s.id, (s.description, s.url));
            }
        }
    }
    out
}
