"""C03 - unit conversion preserves the physical quantity.

model  : spec/MC_Units.tla -- MulExact / FactorIff on the sub-vocabulary validate the specification's own Scale / Dims
         (the conversion laws are theorems of  Conv(x, U1, U2) = x * Scale(U1) / Scale(U2),
         Scale(U) = prod (10^prefix * factor(unit))^power).
traces : random quantities x U1 converted to commensurable U2 directly, there and back, and via a third spelling U3,
         with every unit, every prefix, powers -3..3 and products / quotients of up to four units; every `to`
         application and every result is checked by spec/Trace_Lang.tla against Conv in F_p, with the per-unit
         factor the tool itself exhibits (so a wrong unit definition is reported under C05, not here).
"""
import os, random
import vlib, lang, ugen
from vlib import tlc, expect_holds, ToolError

LEVEL = "model_checking"
TIERS = {"quick": dict(n=10000, wide="FALSE"), "thorough": dict(n=80000, wide="TRUE")}


def owns(problem, rec):
    if problem[0] == "result":
        return problem[2] in ("value",)
    if problem[0] == "app":
        return problem[2] == "to" and problem[3] in ("value",)
    return problem[0] == "panic"


def generate(rnd, n):
    v = ugen.Vocab()
    ug = ugen.UnitGen(v, rnd, maxpow=3)
    out = []
    same_kind = [ks for ks in v.by_dims.values() if len(ks) >= 2]
    for _ in range(n // 12):
        # ratios of units of one kind on both sides: nothing is left of the dimensions, everything of the factors
        g1, g2 = rnd.choice(same_kind), rnd.choice(same_kind)
        k1, k2 = rnd.sample(g1, 2)
        k3, k4 = (rnd.sample(g2, 2) if g2 is not g1 else rnd.sample(g1, 2))
        if len({k1, k2, k3, k4}) < 4:
            continue
        w = [ug.term(k, 1)[0] for k in (k1, k2, k3, k4)]
        out.append("%s %s/%s to %s/%s" % (ugen.magnitude(rnd), w[0], w[1], w[2], w[3]))
    for _ in range(n):
        a = ug.expr()
        b = ug.respell(a)
        x = ugen.magnitude(rnd)
        sa, sb = ug.spell(a), ug.spell(b)
        q = x + rnd.choice(["", " "]) + sa
        c = rnd.random()
        if c < 0.4:
            out.append("%s to %s" % (q, sb))
        elif c < 0.65:
            out.append("%s to %s to %s" % (q, sb, ug.spell(a)))                 # there and back
        elif c < 0.9:
            out.append("%s to %s to %s" % (q, ug.spell(ug.respell(a)), sb))      # via an intermediate
        else:
            k = rnd.randint(2, 9)
            out.append("%s * %d to %s" % (q, k, sb))                            # scaling the input
    return out


def run_strings(chk, strings, name, label, observed, chunk=600):
    path = lang.record(strings, name)
    res = lang.validate(chk, path, name, label=label, chunk=chunk, fac="ObsFacR", observed=observed)
    chk.evals(res.records)
    lang.judge(chk, res, owns, "a conversion does not equal x * Scale(source) / Scale(target): the quantity changed")
    recs = vlib.read_ndjson(path)
    for r in recs:
        for a in r["apps"]:
            if a["op"] == "to" and a["out"].get("k") == "val":
                us = a["args"][0]["u"] + a["args"][1]["u"]
                if any(abs(x[1]) >= 2 for x in us) and any(x[2] != 0 or x[0].isupper() for x in us):
                    chk.nontrivial(r["text"])
    return res, recs


def run(chk):
    p = TIERS[chk.tier]
    vlib.build_harness("release")
    w = vlib.workdir("c03-cfg")
    cfg = lang.mc_cfg(os.path.join(w, "units.cfg"), consts=dict(Wide="FALSE", ZeroEntriesKept="FALSE"), invariants=["FactorIff", "MulExact"])
    t = tlc("MC_Units", cfg, workers=12, timeout=6000, xmx="12g")
    expect_holds(t, "MC_Units")
    chk.model("MC_Units", t, "FactorIff, MulExact: the specification's Scale / Dims are consistent with the transcribed algorithms")
    observed, table = lang.observed_scales("c03-observed")
    chk.cov["observed_scales"] = len(table)
    rnd = random.Random(chk.seed + 3)
    strings = generate(rnd, p["n"])
    res, recs = run_strings(chk, strings, "c03-conv", "conversions", observed)
    chk.cov["decided_by_spec"] = res.decided
    chk.cov["skipped_out_of_domain"] = res.records - res.decided
    if res.decided < res.records // 3:
        raise ToolError("the specification decided only %d of %d generated conversions" % (res.decided, res.records))
    for r in recs[:4]:
        chk.sample({"query": r["text"], "result": lang.show(r)})
    chk.cov["exhaustive"] = False
    chk.cov["rule"] = ("one evaluation = one query with one or two `to` conversions (direct, there-and-back, via an intermediate spelling, scaled input) over "
                       "the whole vocabulary, prefixes, powers -3..3, up to 4 (+2 cancelling) units; checked against Conv in F_p for 4 primes; "
                       "non-trivial = some unit with |power| >= 2 and a prefixed or non-SI unit, distinct by query text")
    chk.assumptions += ["per-unit factors are the ones the tool exhibits for `1 <unit> to <SI base units>` (%d units measured); standard values are checked under C05" % len(table)]


def replay(chk, case):
    vlib.build_harness("release")
    observed, _ = lang.observed_scales("c03-observed")
    run_strings(chk, [case["text"]], "c03-replayed", "replay", observed)
