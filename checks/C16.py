"""C16 - every shipped fact can be found by its own words.

spec   : spec/Facts.tla -- which phrases can be typed (Lexer.tla gives WORD (WS (WORD|NUMBER))* and Grammar.tla reads one
         phrase), and the lookup contract: asking for exactly the words of a constant returns a constant that carries
         all of them, completely decoded.  The ranking (BM25 over n-grams) is an assumed contract of the lookup action,
         validated exhaustively on the finite shipped data.
traces : all 878 shipped constants, each asked for by its own words in the stored order and in rotated / permuted
         order; the returned constant is identified field by field among the independently decoded shipped
         constants; spec/Trace_Facts.tla decides typability and checks the contract.
"""
import itertools, os, random
import vlib, lang, factlib
from vlib import ToolError

LEVEL = "exploration"
TIERS = {"quick": dict(perms=1), "thorough": dict(perms=24)}


def run(chk):
    p = TIERS[chk.tier]
    vlib.build_harness("release")
    facts = factlib.shipped("c16-facts")
    rnd = random.Random(chk.seed + 16)
    rows = []
    for f in facts:
        toks = f["tokens"]
        if not toks:
            continue
        orders = [list(toks)]
        if len(toks) > 1:
            if len(toks) <= 4 and p["perms"] > 1:
                orders = [list(x) for x in itertools.permutations(toks)][:p["perms"]]
            else:
                orders.append(toks[1:] + toks[:1])
                orders.append(list(reversed(toks)))
                if p["perms"] > 1:
                    for _ in range(3):
                        o = list(toks)
                        rnd.shuffle(o)
                        orders.append(o)
        seen = set()
        for o in orders:
            if tuple(o) not in seen:
                seen.add(tuple(o))
                rows.append({"i": f["i"], "words": o})
    w = vlib.workdir("c16-run")
    inp, out = os.path.join(w, "phrases.ndjson"), os.path.join(w, "rec.ndjson")
    vlib.write_ndjson(inp, rows)
    vlib.conform(["c16-record", "--in", inp, "--out", out, "--repo", vlib.REPO], timeout=3600)
    res = lang.validate(chk, out, "c16-val", module="Trace_Facts", label="facts by their own words", chunk=800)
    chk.evals(res.records)
    for m in res.mismatches:
        rec = m["rec"] or {}
        chk.violation("fact %s asked as %r: %s" % (rec.get("i"), rec.get("text"), ",".join(m["problems"])),
                      {"kind": "fact", "words": rec.get("words"), "text": rec.get("text"), "returned_tokens": rec.get("tokens"), "why": rec.get("why"),
                       "what": "asking for exactly the words of a shipped constant does not return a completely decoded constant carrying all of them"})
    # the same through the index as every start of the tool but the first has it: built on disk by one start, opened by the next
    inp2, out2 = os.path.join(w, "phrases-reopened.ndjson"), os.path.join(w, "rec-reopened.ndjson")
    rows2 = rows if chk.tier == "thorough" else rows[chk.seed % 3::3]
    vlib.write_ndjson(inp2, rows2)
    vlib.conform(["c16-record", "--in", inp2, "--out", out2, "--repo", vlib.REPO, "--session", "reopened"], timeout=3600)
    res2 = lang.validate(chk, out2, "c16-val-reopened", module="Trace_Facts", label="facts by their own words, index reopened from disk", chunk=800)
    chk.evals(res2.records)
    chk.cov["phrases_asked_of_the_reopened_index"] = len(rows2)
    for m in res2.mismatches:
        rec = m["rec"] or {}
        chk.violation("fact %s asked of the reopened index as %r: %s" % (rec.get("i"), rec.get("text"), ",".join(m["problems"])),
                      {"kind": "fact", "session": "reopened", "words": rec.get("words"), "text": rec.get("text"), "returned_tokens": rec.get("tokens"), "why": rec.get("why"),
                       "what": "asking the on-disk index, opened again by a second start, for exactly the words of a shipped constant does not return that constant"})
    recs = vlib.read_ndjson(out)
    for r in recs:
        if len(r["words"]) >= 2:
            chk.nontrivial(r["text"])
    chk.cov["constants_shipped"] = len(facts)
    chk.cov["phrases_asked"] = len(rows)
    chk.cov["typable_according_to_spec"] = res.judged
    chk.cov["skipped_out_of_domain"] = res.records - res.judged
    typable_facts = len({r["i"] for r in recs if r["found"]})
    chk.cov["constants_found"] = typable_facts
    if res.judged < len(facts) // 2:
        raise ToolError("the specification finds only %d of %d phrases typable" % (res.judged, len(rows)))
    chk.cov["exhaustive"] = True
    chk.cov["rule"] = ("exhaustive over the shipped data: every one of the %d constants, by its own words in stored order, rotated and reversed%s, asked of a database built in memory and (a third of the phrases; thorough: all) of the on-disk index opened again by a second start; one evaluation "
                       "= one phrase; phrases the specification cannot type (words with `/`, digits first, non-word characters) are out of domain; "
                       "non-trivial = a phrase of >= 2 words" % (len(facts), " and every permutation up to 4 words" if p["perms"] > 1 else ""))
    for r in recs[:2]:
        chk.sample({"asked": r["text"], "returned_tokens": r["tokens"]})
    chk.assumptions += ["the ranking function (BM25 over 1..7-grams) is not modelled: its contract is validated on the shipped data only",
                        "the returned constant is identified among the independently decoded shipped constants by description, value and unit"]


def replay(chk, case):
    vlib.build_harness("release")
    w = vlib.workdir("c16-replay")
    inp, out = os.path.join(w, "phrases.ndjson"), os.path.join(w, "rec.ndjson")
    vlib.write_ndjson(inp, [{"i": 0, "words": case["words"]}])
    vlib.conform(["c16-record", "--in", inp, "--out", out, "--repo", vlib.REPO] + (["--session", "reopened"] if case.get("session") == "reopened" else []))
    res = lang.validate(chk, out, "c16-replay-val", module="Trace_Facts", label="replay")
    for m in res.mismatches:
        chk.violation("replayed %r: %s" % (case["text"], m["problems"]), case)
