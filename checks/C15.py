"""C15 - the on-disk index always recovers to the shipped data.

model  : spec/Store.tla  (unbounded faults and kills; bounded; liveness; pinned protocol must fail)
replay : spec/MC_Store.tla prints every maximal fault/start/kill schedule; `conform c15-replay`
         runs each against a real private data directory with the crash hooks
traces : the store-step events of all those runs are validated against spec/Trace_Store.tla
"""
import json, os
import vlib
from vlib import tlc, expect_holds, ToolError

LEVEL = "model_checking"

TIERS = {
    # NDocs, MaxFaults, MaxCrashes, MaxStarts, cap on schedules replayed
    "quick": dict(NDocs=2, MaxFaults=1, MaxCrashes=1, MaxStarts=2, cap=3000,
                  # second pass: two external faults before one killed start (leftovers that only matter once the index is lost too)
                  extra=dict(NDocs=2, MaxFaults=2, MaxCrashes=1, MaxStarts=2, cap=4000)),
    "thorough": dict(NDocs=3, MaxFaults=2, MaxCrashes=2, MaxStarts=3, cap=40000),
}

VIOLATION_EVENTS = {
    "meta_truncated": "meta.json is rewritten although the index is not completely committed",
    "after_write_meta": "meta.json records the index as current although the index is not completely committed",
    "answers": "a start that became ready does not answer as a freshly built database",
}


def write_cfg(path, spec, consts, invariants=(), properties=(), extra=""):
    with open(path, "w") as f:
        f.write("SPECIFICATION %s\nCONSTANTS\n" % spec)
        for k, v in consts.items():
            f.write("  %s = %s\n" % (k, v))
        for i in invariants:
            f.write("INVARIANT %s\n" % i)
        for p in properties:
            f.write("PROPERTY %s\n" % p)
        f.write("CHECK_DEADLOCK FALSE\n" + extra)


def compress(events):
    """collapse runs of consecutive add_document events"""
    out, run = [], None
    for e in events:
        if e["ev"] == "add_document":
            if run is not None and run["to"] == e["n"] - 1 and run["vec"] == e["vec"]:
                run["to"] = e["n"]
                continue
            run = {"ev": "add_documents", "from": e["n"], "to": e["n"], "vec": e["vec"]}
            out.append(run)
            continue
        run = None
        out.append(e)
    return out


def validate_trace(chk, events, ndocs, vectors, cfg="Trace_Store.cfg"):
    """TLC accepts the concatenated runs iff they are a behaviour of Store.tla; on a rejection
    report the run and carry on behind it."""
    w = vlib.workdir("c15-trace")
    accepted_runs = 0
    rejected = []
    rounds = 0
    while events and rounds < 12:
        rounds += 1
        path = os.path.join(w, "trace%d.ndjson" % rounds)
        vlib.write_ndjson(path, events)
        t = tlc("Trace_Store", cfg, workers=1, env={"TRACE": path, "NDOCS": ndocs}, deque=True, timeout=1200)
        if t.error or t.violated:
            raise ToolError("trace validation failed to run: %s" % (t.error or t.violated)[:800])
        reached = None
        for line in t.printed:
            if line.startswith('<<"REACHED"'):
                reached = int(line.split(",")[1])
        if reached is None:
            raise ToolError("trace validation printed no REACHED line")
        chk.model("Trace_Store(%d events)" % len(events), t, "trace validation")
        if reached == len(events) + 1:
            accepted_runs += len({e["vec"] for e in events})
            break
        bad = events[reached - 1]   # first line no behaviour could consume
        accepted_runs += len({e["vec"] for e in events[:reached - 1]} - {bad["vec"]})
        rejected.append(bad)
        vec = bad["vec"]
        ctx = [e for e in events if e["vec"] == vec]
        pos = ctx.index(bad)
        what = VIOLATION_EVENTS.get(bad["ev"])
        if what:
            chk.violation("trace vec=%s rejected at %s" % (json.dumps(vectors[vec]["hist"])[:300], bad["ev"]),
                          {"kind": "schedule", "hist": vectors[vec]["hist"], "rejected_event": bad, "position": pos,
                           "events": ctx, "what": what})
        else:
            chk.drift("store events of schedule %d are not a behaviour of Store.tla: rejected at event %d %s; events %s" % (
                vec, pos, bad, [e["ev"] for e in ctx][:60]))
        # continue behind the rejected run
        nxt = None
        for i in range(reached - 1, len(events)):
            if events[i]["ev"] == "reset" and events[i]["vec"] != vec:
                nxt = i
                break
        events = events[nxt:] if nxt is not None else []
    return accepted_runs, rejected


def binding_selftest(chk, events, ndocs):
    """Four corruptions of accepted runs -- a hook's event lost, two events swapped, an answer changed -- each of
    which Trace_Store has to reject; otherwise what it accepted means nothing."""
    import copy
    by = {}
    for e in events:
        by.setdefault(e["vec"], []).append(e)

    def lose(kind):
        def f(run):
            ks = [k for k, e in enumerate(run) if e["ev"] == kind]
            # only where the metadata is written afterwards (an on-disk build that got that far)
            ks = [k for k in ks if any(x["ev"] in ("meta_truncated", "before_remove_index") for x in run[k + 1:k + 4])]
            return (run[:ks[0]] + run[ks[0] + 1:]) if ks else None
        return f

    def swap_meta_commit(run):
        for k in range(len(run) - 3):
            if [x["ev"] for x in run[k:k + 4]] == ["after_commit", "after_reload", "meta_truncated", "after_write_meta"]:
                return run[:k] + [run[k + 2], run[k + 3], run[k], run[k + 1]] + run[k + 4:]
        return None

    def stale_answer(run):
        ks = [k for k, e in enumerate(run) if e["ev"] == "answers" and e.get("fresh")]
        if not ks:
            return None
        run = copy.deepcopy(run)
        run[ks[-1]]["fresh"] = False
        return run
    kinds = [("event of the commit hook lost before the metadata is written", lose("after_commit")),
             ("event of the invalidation hook lost before the index is removed", lose("meta_invalidated")),
             ("metadata written before the commit", swap_meta_commit),
             ("a ready start answers differently from a fresh build", stale_answer)]
    w = vlib.workdir("c15-selftest")
    report = {}
    for kind, fn in kinds:
        done = 0
        rejected = 0
        for vec, run in by.items():
            c = fn(run)
            if c is None:
                continue
            path = os.path.join(w, "t.ndjson")
            vlib.write_ndjson(path, c)
            t = tlc("Trace_Store", "Trace_Store.cfg", workers=1, env={"TRACE": path, "NDOCS": ndocs}, deque=True, timeout=600)
            reached = None
            for line in t.printed:
                if line.startswith('<<"REACHED"'):
                    reached = int(line.split(",")[1])
            done += 1
            rejected += reached is not None and reached < len(c) + 1
            if done >= 2:
                break
        if done:
            report[kind] = "%d of %d corrupted runs rejected" % (rejected, done)
            if not rejected:
                chk.cov.setdefault("binding_selftest", {})["Trace_Store"] = report
                raise ToolError("binding self-test: Trace_Store accepted runs corrupted by: %s" % kind)
    vlib.log("[selftest] Trace_Store: " + "; ".join("%s: %s" % kv for kv in report.items()))
    chk.cov.setdefault("binding_selftest", {})["Trace_Store"] = report


def model(chk, p):
    w = vlib.workdir("c15-cfg")
    base = dict(InvalidateFirst="TRUE", MetaBeforeCommit="FALSE", NDocs=p["NDocs"])
    # 1. unbounded faults and kills
    t = tlc("Store", "MC_Store.cfg", workers=4, coverage=True)
    expect_holds(t, "Store unbounded")
    chk.model("MC_Store.cfg", t, "faults and kills unbounded; AnswersAsFresh, MetaWrittenAfterCommit, MemoryIsReadOnly")
    for a in ["Crash", "Fault", "Invalidate", "TruncMeta", "TryOpenOk", "TryOpenFail", "RemoveDirBegin", "CreateIndex",
              "Commit", "WriteMeta", "AddDoc"]:
        if t.coverage and t.coverage.get(a, 0) == 0:
            raise ToolError("vacuous model: action %s never taken" % a)
    # 2. bounded, with the state form of MetaNeverAhead
    t = tlc("Store", "MC_Store_bounded.cfg", workers=4)
    expect_holds(t, "Store bounded")
    chk.model("MC_Store_bounded.cfg", t, "<=2 faults, <=3 kills, 3 documents; MetaNeverAhead")
    # 3. liveness
    t = tlc("Store", "MC_Store_live.cfg", workers=4)
    expect_holds(t, "Store liveness")
    chk.model("MC_Store_live.cfg", t, "EventuallyReady under weak fairness")
    # 4. the specification discriminates: the protocol as originally pinned must fail
    t = tlc("Store", "MC_Store_pinned.cfg", workers=4)
    if t.violated != "AnswersAsFresh":
        raise ToolError("the pinned protocol (InvalidateFirst = FALSE) no longer violates AnswersAsFresh in the model")
    chk.model("MC_Store_pinned.cfg", t, "regression: protocol without invalidation violates AnswersAsFresh (expected)")
    cfg = os.path.join(w, "mutant.cfg")
    write_cfg(cfg, "Spec", dict(base, MetaBeforeCommit="TRUE", MaxFaults=0, MaxCrashes=0), properties=["MetaWrittenAfterCommit"])
    t = tlc("Store", cfg, workers=4)
    if t.violated != "MetaWrittenAfterCommit":
        raise ToolError("write_meta-before-commit no longer violates MetaWrittenAfterCommit in the model")
    chk.model("MetaBeforeCommit=TRUE", t, "regression: meta before commit violates MetaWrittenAfterCommit (expected)")


def inductive(chk):
    """C15's safety for ANY number of shipped documents and any number of faults and kills: the inductive invariant of
    spec/StoreInd.tla, discharged by Apalache (initiation, consecution, implication), and its control: under the protocol
    as pinned (no invalidation) the same invariant must NOT be inductive."""
    obligations = [("Init", "IndInv", 0, "ConstInit", "ok", "Init => IndInv"),
                   ("IndInit", "IndInv", 1, "ConstInit", "ok", "IndInv /\\ Next => IndInv'"),
                   ("IndInit", "Safety", 0, "ConstInit", "ok", "IndInv => AnswersAsFresh /\\ DirNeverAhead"),
                   ("IndInit", "IndInv", 1, "ConstInitPinned", "error", "control: without invalidation IndInv is not inductive"),
                   ("IndInit", "IndInv", 1, "ConstInitMetaFirst", "error", "control: with write_meta before the commit IndInv is not inductive")]
    done = []
    for init, inv, length, cinit, want, what in obligations:
        outcome, wall, tail = vlib.apalache("StoreInd", init, inv, length, cinit=cinit)
        if outcome != want:
            if want == "ok":
                raise ToolError("the inductive invariant of StoreInd.tla does not hold (%s):\n%s" % (what, tail))
            raise ToolError("StoreInd.tla no longer discriminates (%s)" % what)
        done.append({"obligation": what, "outcome": outcome, "wall_s": round(wall, 1)})
    chk.cov["inductive_invariant"] = {"module": "StoreInd.tla", "tool": "apalache-mc 0.58", "parameters": "NDocs >= 1 arbitrary, faults and kills unbounded",
                                      "obligations": done}


def _gzip_to_size(raw, size, mtime_field):
    """a gzip stream of exactly `size` bytes holding `raw` (padded with a header comment), or None"""
    import struct, zlib
    for level in range(9, -1, -1):
        co = zlib.compressobj(level, zlib.DEFLATED, -15)
        body = co.compress(raw) + co.flush()
        tail = struct.pack("<II", zlib.crc32(raw) & 0xffffffff, len(raw) & 0xffffffff)
        plain = 10 + len(body) + 8
        if plain == size:
            return b"\x1f\x8b\x08\x00" + mtime_field + b"\x00\xff" + body + tail
        if plain < size:
            pad = size - plain          # FCOMMENT: pad - 1 characters and a NUL
            return b"\x1f\x8b\x08\x10" + mtime_field + b"\x00\xff" + b"x" * (pad - 1) + b"\x00" + body + tail
    return None


def other_data(chk):
    """Store.tla's initial state <<"OtherHash", "Old">> -- a directory completely written by this version of the tool for OTHER
    shipped data -- realised for real instead of by a forged meta.json: a scratch copy of the repository is built (debug: the
    embedded assets are then read from its db/ folder at run time), a data directory is built with it, then one asset is
    regenerated with one value changed -- same name, same size, same modification time (packaging that normalises timestamps) --
    and the tool is started on the old directory: at `ready` it must answer as on a fresh directory (AnswersAsFresh), which
    differs from what the old index answers.  Binds the abstraction "meta = Current iff the recorded hash is that of the data
    this build ships" to config.rs::hash_assets."""
    import gzip, re, shutil, subprocess, tempfile, factlib
    facts = factlib.shipped("c15-facts")
    # (a fixed place per copy of this machinery: in a debug build the folder of the assets is compiled in, and cargo's
    # cache of the build is keyed by it)
    scratch = os.path.join(tempfile.gettempdir(), "anything-otherdata-" + __import__("hashlib").md5(vlib.ROOT.encode()).hexdigest()[:8])
    shutil.rmtree(scratch, ignore_errors=True)
    os.makedirs(scratch)
    try:
        files = subprocess.run(["git", "-C", vlib.REPO, "ls-files", "-z", "-c", "-o", "--exclude-standard"], stdout=subprocess.PIPE, check=True).stdout.split(b"\0")
        for f in files:
            f = f.decode()
            if not f or not os.path.isfile(os.path.join(vlib.REPO, f)):
                continue
            d = os.path.join(scratch, "src", f)
            os.makedirs(os.path.dirname(d), exist_ok=True)
            shutil.copy(os.path.join(vlib.REPO, f), d)          # (new modification times: the crate is compiled again, for this folder)
        src = os.path.join(scratch, "src")
        env = dict(os.environ, CARGO_NET_OFFLINE="true", CARGO_TARGET_DIR=os.path.join(vlib.HARNESS, "target", "otherdata"))
        t0 = __import__("time").time()
        pr = subprocess.run(["cargo", "build", "--offline", "--bin", "any"], cwd=src, env=env, stdout=subprocess.PIPE, stderr=subprocess.STDOUT, text=True)
        if pr.returncode != 0:
            vlib.log(pr.stdout[-3000:])
            raise ToolError("the scratch copy of the repository does not build")
        vlib.log("[build] scratch copy (debug, assets read at run time) %.1fs" % (__import__("time").time() - t0))
        # (the binary is copied out: the next build in the shared target directory would replace it)
        any_bin = os.path.join(scratch, "any")
        shutil.copy2(os.path.join(env["CARGO_TARGET_DIR"], "debug", "any"), any_bin)

        def answers(home, phrases):
            out = []
            e = {k: v for k, v in os.environ.items() if not k.startswith("ANYTHING_VERIF")}
            e.update(XDG_DATA_HOME=home, HOME=home, NO_COLOR="1")
            e.pop("RUST_LOG", None)
            for ph in phrases:
                r = subprocess.run([any_bin, "--exact", ph], env=e, stdout=subprocess.PIPE, stderr=subprocess.PIPE, text=True, timeout=600)
                out.append(r.stdout if r.returncode == 0 else "exit %d: %s" % (r.returncode, r.stderr[-300:]))
            return out
        done = []
        for asset in sorted(os.listdir(os.path.join(src, "db"))):
            path = os.path.join(src, "db", asset)
            original = open(path, "rb").read()
            st = os.stat(path)
            try:
                raw = gzip.decompress(original)
            except Exception:
                continue
            others = [" ".join(f["tokens"]) for f in facts if f["file"] == asset and f["tokens"] and all(factlib.simple_word(t) for t in f["tokens"])][:8]

            def tokens_before(pos):
                """the words of the constant whose value stands at pos (CBOR: `tokens` precedes `value` in a record)"""
                k = raw.rfind(b"ftokens", 0, pos)
                if k < 0 or not (0x80 <= raw[k + 7] <= 0x97):
                    return None
                n, k, out = raw[k + 7] - 0x80, k + 8, []
                for _ in range(n):
                    if 0x60 <= raw[k] <= 0x77:
                        ln, k = raw[k] - 0x60, k + 1
                    elif raw[k] == 0x78:
                        ln, k = raw[k + 1], k + 2
                    else:
                        return None
                    out.append(raw[k:k + ln].decode("utf-8", "replace"))
                    k += ln
                return out
            cands = []
            for m in re.finditer(rb"evalue\x82\x82\x01\x81\x1a(....)", raw, re.S):
                toks = tokens_before(m.start())
                if toks and all(factlib.simple_word(t) for t in toks):
                    cands.append((m, " ".join(toks)))
            if not cands:
                continue
            regenerated, how, phrases = None, "", None
            for m, phrase in cands[:8]:
                for delta in (1, 2, 3, 5, 7, 11):
                    alt = bytearray(raw)
                    alt[m.end(1) - 1] = (alt[m.end(1) - 1] + delta) % 256
                    g = _gzip_to_size(bytes(alt), len(original), original[4:8])
                    if g and g != original:
                        regenerated, how, phrases = g, "same name, same size, same modification time", [phrase] + [x for x in others if x != phrase]
                        break
                if regenerated:
                    break
            if not regenerated:
                m, phrase = cands[0]
                alt = bytearray(raw)
                alt[m.end(1) - 1] = (alt[m.end(1) - 1] + 1) % 256
                regenerated, how, phrases = gzip.compress(bytes(alt)), "same name, same modification time", [phrase] + [x for x in others if x != phrase]
            # a data directory completely built for the data as shipped
            home = os.path.join(scratch, "home-" + asset)
            old = answers(home, phrases)
            with open(path, "wb") as f:
                f.write(regenerated)
            os.utime(path, ns=(st.st_atime_ns, st.st_mtime_ns))
            fresh = answers(os.path.join(scratch, "fresh-" + asset), phrases)
            if fresh == old:
                raise ToolError("other data: the regenerated %s changes none of the answers asked for: %r -> %r" % (asset, list(zip(phrases, old))[:3], fresh[:3]))
            for start in (1, 2):
                got = answers(home, phrases)
                chk.evals(len(phrases))
                chk.nontrivial(["other-data", asset, start])
                if got != fresh:
                    k = [i for i in range(len(phrases)) if got[i] != fresh[i]][0]
                    chk.violation("other data %s, start %d" % (asset, start),
                                  {"kind": "other-data", "asset": asset, "regenerated": how, "start": start, "phrase": phrases[k], "answer": got[k], "fresh_directory_answers": fresh[k],
                                   "old_index_answers": old[k],
                                   "what": "a data directory written by this version for other shipped data (%s) does not recover to the shipped data: the tool answers from the old index" % how})
                    break
            done.append({"asset": asset, "regenerated": how, "phrases": len(phrases), "answers_changed": sum(1 for a, b in zip(old, fresh) if a != b)})
            # the asset as shipped again, for the next one
            with open(path, "wb") as f:
                f.write(original)
            os.utime(path, ns=(st.st_atime_ns, st.st_mtime_ns))
        if not done:
            raise ToolError("other data: no asset could be regenerated")
        chk.cov["other_data_directories"] = done
    finally:
        shutil.rmtree(scratch, ignore_errors=True)


def emit(chk, p):
    w = vlib.workdir("c15-emit")
    cfg = os.path.join(w, "emit.cfg")
    write_cfg(cfg, "MCSpec", dict(InvalidateFirst="TRUE", MetaBeforeCommit="FALSE", NDocs=p["NDocs"],
                                  MaxFaults=p["MaxFaults"], MaxCrashes=p["MaxCrashes"], MaxStarts=p["MaxStarts"], Emit="TRUE"),
              invariants=["AnswersAsFresh", "EmitInv"])
    t = tlc("MC_Store", cfg, workers=8, timeout=1500)
    expect_holds(t, "MC_Store emit")
    chk.model("MC_Store emit %s" % {k: p[k] for k in ("NDocs", "MaxFaults", "MaxCrashes", "MaxStarts")}, t,
              "every maximal schedule printed")
    vecs = [v for tag, v in t.vecs]
    if not vecs:
        raise ToolError("no schedules emitted")
    return vecs


def run_schedules(chk, vecs, ndocs_model, batch=3000):
    """The schedules are replayed in batches, one process each: the in-process starts that are killed (a panic at the hook,
    unwound) leave tantivy's writer threads and arenas behind, which adds up over tens of thousands of schedules."""
    w = vlib.workdir("c15-run")
    vf, of, tf = (os.path.join(w, n) for n in ("vectors.ndjson", "out.ndjson", "trace.ndjson"))
    results, events, info = [], [], None
    for off in range(0, len(vecs), batch):
        vlib.write_ndjson(vf, vecs[off:off + batch])
        p = vlib.conform(["c15-replay", "--vectors", vf, "--out", of, "--trace", tf, "--work", os.path.join(w, "dirs"),
                          "--repo", vlib.REPO, "--docs-model", ndocs_model, "--jobs", 14, "--offset", off], timeout=7200)
        info = json.loads(p.stdout.strip().splitlines()[-1])
        results += vlib.read_ndjson(of)
        events += vlib.read_ndjson(tf)
    return info, results, compress(events)


def judge(chk, results):
    for r in results:
        chk.evals()
        hist = r["hist"]
        kills = [h for h in hist if h["k"].startswith("run") and h["what"] != "ready"]
        faults = [h for h in hist if h["k"] == "fault"]
        if kills or faults:
            chk.nontrivial([[h["k"], h["what"], h["n"]] for h in hist] + [hist[0]["meta"]])
        for v in r["violations"]:
            chk.violation("schedule %s: %s" % (json.dumps([[h["k"], h["what"], h["n"], h["meta"], h["idx"]] for h in hist]), v["what"]),
                          {"kind": "schedule", "hist": hist, "observed": r["items"], "violation": v})
        for d in r["drifts"]:
            chk.drift("schedule %d: %s" % (r["i"], json.dumps(d)))


def run(chk):
    p = TIERS[chk.tier]
    vlib.build_harness("release")
    model(chk, p)
    inductive(chk)
    other_data(chk)
    vecs = emit(chk, p)
    total = len(vecs)
    if total > p["cap"]:
        # deterministic stratified thinning: keep every schedule with a kill, thin the rest
        import random
        rnd = random.Random(chk.seed)
        kill = [v for v in vecs if any(h["k"].startswith("run") and h["what"] != "ready" for h in v["hist"])]
        rest = [v for v in vecs if v not in kill] if len(vecs) < 20000 else []
        rnd.shuffle(kill)
        vecs = kill[:p["cap"]] + rest[:max(0, p["cap"] - len(kill))]
    if p.get("extra"):
        import random
        q = p["extra"]
        # two faults, then a killed start, then a start that runs to the end and is asked
        more = [v for v in emit(chk, q)
                if sum(1 for h in v["hist"] if h["k"] == "fault") == 2
                and [h["k"][:3] for h in v["hist"][-2:]] == ["run", "run"]
                and v["hist"][-2]["what"] != "ready" and v["hist"][-1]["what"] == "ready"]
        total += len(more)
        # "metadata missing" in each of its realisations (deleted, left as meta.json.tmp, left as meta.json.bak)
        more = [dict(v, real=r) for v in more
                for r in ((0, 1, 2) if any(h["what"] == "meta_Absent" for h in v["hist"]) else (0,))]
        random.Random(chk.seed + 1).shuffle(more)
        vecs = vecs + more[:q["cap"]]
    info, results, events = run_schedules(chk, vecs, p["NDocs"])
    judge(chk, results)
    accepted, rejected = validate_trace(chk, events, info["shipped"], vecs)
    if not rejected:
        binding_selftest(chk, events, info["shipped"])
    chk.cov["traces_validated_against_impl"] = accepted
    chk.cov["exhaustive"] = (len(vecs) == total)
    chk.cov["rule"] = ("every maximal behaviour of MC_Store.tla with the tier's bounds (initial directory x external fault x "
                       "session kind x kill point per start) is one case; non-trivial = contains a fault or a kill; distinct by "
                       "the schedule itself")
    chk.cov["schedules_in_model"] = total
    chk.cov["queries_compared_per_ready_start"] = info["queries"]
    for r in results[:3] + results[len(results) // 2: len(results) // 2 + 2]:
        chk.sample({"schedule": [[h["k"], h["what"], h["n"]] for h in r["hist"]],
                    "observed": [[i["k"], i.get("meta"), i.get("idx"), i.get("fresh")] for i in r["items"]]})
    chk.assumptions += [
        "tantivy's commit is atomic and uncommitted documents are invisible after a kill (modelled as one step)",
        "kills happen at hook points (between steps of open_inner/open_index/write_meta), not inside tantivy or inside remove_dir_all",
        "answers are compared on %d unambiguous fact phrases (strictly best score) so that tie-breaking (C14) cannot interfere" % info["queries"],
    ]


def replay(chk, case):
    vlib.build_harness("release")
    if case.get("kind") == "other-data":
        other_data(chk)
        return
    vecs = [{"hist": case["hist"]}]
    info, results, events = run_schedules(chk, vecs, 3 if any(h["n"] == 3 for h in case["hist"]) else 2)
    judge(chk, results)
    validate_trace(chk, events, info["shipped"], vecs)
    print(json.dumps(results[0]["items"], indent=1))
