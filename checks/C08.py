"""C08 - printed decimals are faithful and never silently truncated.

model  : spec/MC_Display.tla -- Display.tla's transcription of the three formatter paths (scientific, whole,
         leading-zero loop) produces faithful text on a grid of values (-1)^neg * n/d * 10^k x digit limits x
         exponent thresholds; each as-pinned defect constant must be rejected.
replay : a slice of the same grid is rendered by Rational::display; spec/Trace_Display.tla reads the printed
         characters back and requires Faithful (layout differences from Display.Render are drift).
traces : random values n/d * 10^k (n, d < 10^4, |k| <= 40) x random limits 1..20 x thresholds 1..15.
"""
import os, random
import vlib, lang
from vlib import tlc, expect_holds, ToolError

LEVEL = "model_checking"
TIERS = {
    "quick": dict(MaxN=60, MaxD=40, Ks="KsSmall", Limits="LimitsSmall", ELimits="ELimitsSmall", stride=5, random=20000),
    "thorough": dict(MaxN=60, MaxD=40, Ks="KsFull", Limits="LimitsFull", ELimits="ELimitsFull", stride=40, random=150000),
}
PINNED = ["OneDigitLookahead", "BigIgnoresFraction", "BigMarksZeros"]
REPAIRED = {k: "FALSE" for k in PINNED}


def cfg(path, p, emit, stride, phase=0, **over):
    consts = dict(REPAIRED, MaxN=p["MaxN"], MaxD=p["MaxD"], Emit="TRUE" if emit else "FALSE", Stride=stride, Phase=phase)
    consts.update(over)
    return lang.mc_cfg(path, consts=consts, fac=None, subst=["Ks <- %s" % p["Ks"], "Limits <- %s" % p["Limits"], "ELimits <- %s" % p["ELimits"]],
                       invariants=["FaithfulInv"] + (["EmitInv"] if emit else []))


def run_vectors(chk, vecs, name, label, chunk=5000):
    w = os.path.join(vlib.WORK, name)
    os.makedirs(w, exist_ok=True)
    inp, out = os.path.join(w, "in.ndjson"), os.path.join(w, "rec.ndjson")
    vlib.write_ndjson(inp, vecs)
    vlib.conform(["c08-record", "--in", inp, "--out", out], timeout=3600)
    consts = dict(REPAIRED)
    res = lang.validate(chk, out, name, module="Trace_Display", label=label, chunk=chunk, consts=consts)
    chk.evals(res.records)
    for m in res.mismatches:
        rec = m["rec"] or {}
        val = "%s%d/%d * 10^%d" % ("-" if rec.get("neg") else "", rec.get("n", 0), rec.get("d", 1), rec.get("k", 0))
        if "unfaithful" in m["problems"] or rec.get("panic"):
            chk.violation("value %s limit=%s threshold=%s printed as %r" % (val, rec.get("limit"), rec.get("el"), rec.get("text")),
                          {"kind": "display", "neg": rec.get("neg"), "n": rec.get("n"), "d": rec.get("d"), "k": rec.get("k"), "form": rec.get("form") or "",
                           "limit": rec.get("limit"), "el": rec.get("el"), "printed": rec.get("text"), "panic": rec.get("panic"),
                           "what": "the printed text, read back, is not the value cut off toward zero at its last digit with the right sign, "
                                   "or the continuation mark does not tell whether non-zero digits were cut"})
        elif "layout" in m["problems"]:
            chk.drift("value %s limit=%s threshold=%s printed as %r: faithful, but not the layout Display.Render produces" % (
                val, rec.get("limit"), rec.get("el"), rec.get("text")))
    for r in vlib.read_ndjson(out):
        if "…" in r["text"] or "e" in r["text"]:
            chk.nontrivial([r["neg"], r["n"], r["d"], r["k"], r["limit"], r["el"]])
    return res


def run(chk):
    p = TIERS[chk.tier]
    vlib.build_harness("release")
    w = vlib.workdir("c08-cfg")
    if "VERIF_SKIP_MODEL" not in os.environ:
        t = tlc("MC_Display", cfg(os.path.join(w, "grid.cfg"), p, False, 1), workers=12, timeout=6000, xmx="14g")
        expect_holds(t, "MC_Display grid")
        chk.model("MC_Display grid n<=%d d<=%d %s %s %s" % (p["MaxN"], p["MaxD"], p["Ks"], p["Limits"], p["ELimits"]), t, "Faithful on the whole grid")
        small = dict(p, MaxN=60, MaxD=40, Ks="KsSmall", Limits="LimitsSmall", ELimits="ELimitsSmall")
        for flag in PINNED:
            t = tlc("MC_Display", cfg(os.path.join(w, "pin-%s.cfg" % flag), small, False, 1, **{flag: "TRUE"}), workers=6, timeout=900)
            if t.violated != "FaithfulInv":
                raise ToolError("as-pinned constant %s no longer violates Faithful in the model" % flag)
            chk.model("MC_Display %s=TRUE" % flag, t, "regression: repaired defect violates Faithful (expected)")
    t = tlc("MC_Display", cfg(os.path.join(w, "emit.cfg"), p, True, p["stride"], chk.seed % p["stride"]), workers=12, timeout=6000, xmx="14g")
    expect_holds(t, "MC_Display emit")
    chk.model("MC_Display emit stride %d" % p["stride"], t, "slice of the grid emitted for replay")
    vecs = [v for tag, v in t.vecs]
    if len(vecs) < 1000:
        raise ToolError("only %d vectors emitted" % len(vecs))
    paths = {}
    for v in vecs:
        paths[v["path"]] = paths.get(v["path"], 0) + 1
    if set(paths) != {"big", "whole", "small"}:
        raise ToolError("the replayed slice does not reach all three formatter paths: %s" % paths)
    run_vectors(chk, vecs, "c08-replay", "replay of the grid slice")
    rnd = random.Random(chk.seed + 8)
    rv = []
    for _ in range(p["random"]):
        n = rnd.choice([rnd.randint(1, 9999), rnd.randint(1, 99), 10 ** rnd.randint(0, 3), rnd.randint(1, 9) * 10 ** rnd.randint(0, 3)])
        d = rnd.choice([rnd.randint(1, 9999), rnd.randint(1, 99), 2 ** rnd.randint(0, 12), 5 ** rnd.randint(0, 5), 1, 3, 7, 9, 11, 13])
        rv.append({"neg": rnd.random() < 0.4, "n": n, "d": d, "k": rnd.randint(-40, 40) if rnd.random() < 0.8 else 0,
                   "limit": rnd.randint(1, 20) if rnd.random() < 0.7 else 12, "el": rnd.randint(1, 15) if rnd.random() < 0.7 else 12})
    # the same value as it stands after decoding stored data (serde keeps the pair as written): both parts negated, a common factor
    for k, v in enumerate(rv):
        if k % 8 == 0:
            v["form"] = "negden"
        elif k % 8 == 1:
            v["form"] = "unreduced"
    chk.cov["values_in_stored_form"] = sum(1 for v in rv if v.get("form"))
    run_vectors(chk, rv, "c08-random", "random values", chunk=2000)
    chk.cov["replayed_paths"] = paths
    chk.cov["exhaustive"] = False
    chk.cov["rule"] = ("model: every (sign, n <= %d, d <= %d, k in %s, limit in %s, threshold in %s) (exhaustive); replay: the 1/%d slice of that grid; "
                       "random: %d values n/d*10^k with n, d < 10^4, |k| <= 40, limits 1..20, thresholds 1..15, a quarter of them handed to the formatter as decoded from storage (both parts negated; unreduced); one evaluation = one rendering by the "
                       "real formatter read back by TLC; non-trivial = the text carries a continuation mark or an exponent, distinct by case"
                       % (p["MaxN"], p["MaxD"], p["Ks"], p["Limits"], p["ELimits"], p["stride"], p["random"]))
    chk.sample(vecs[len(vecs) // 2])
    chk.assumptions += ["show_continuation is left at its default (true): the property speaks about the mark"]


def replay(chk, case):
    vlib.build_harness("release")
    run_vectors(chk, [dict({k: case[k] for k in ("neg", "n", "d", "k", "limit", "el")}, form=case.get("form") or "")], "c08-replayed", "replay")
