"""C06 - operator precedence, associativity, grouping and optional blanks.

model  : spec/MC_Parser.tla -- the transcription of the hand-written parser + the evaluator's tree walk
         (Parser.tla) refines the documented grammar (Grammar.tla) on every token string up to a length
         over several alphabets (Lossless, Refines, Sound); each as-pinned defect constant must fail.
         spec/MC_Eval.tla -- from the grammar side: every operator sequence up to length K over
         + - * / ^ to with every placement of parentheses x blank layouts: RenderParses, ParserRefines.
replay : every rendering is evaluated by the real library; spec/Trace_Lang.tla compares the value;
         spec/Trace_Parse.tla compares the real lexer's tokens and the real parser's tree with the
         specification's and evaluates the grammar's reading against the *real* tree.
traces : seeded random deeper expressions (calls, quantities, `to`, blank layouts).
A value that differs although every single operator application agrees with the specification is
a grouping error (C06); a wrong application is arithmetic (C01/C04) and only reported as drift here.
"""
import os, random
import vlib, lang
from vlib import tlc, expect_holds, ToolError

LEVEL = "model_checking"
TIERS = {
    "quick": dict(parser=[("Arith", 6), ("Quant", 5), ("Calls", 5), ("All", 4)], gens=[(3, 0, '"all"'), (4, 4, '"two"')], K=4, random=3000),
    "thorough": dict(parser=[("Arith", 8), ("Quant", 7), ("Calls", 7), ("All", 5)], gens=[(4, 0, '"all"'), (5, 5, '"two"')], K=5, random=40000),
}
PINNED = [("StaleSkip", "Arith", 3), ("ParenReusesSkip", "Arith", 4), ("EatIgnoresSkip", "Arith", 4),
          ("RelabelInsteadOfPop", "ArithNoBlank", 7), ("TokensAreResults", "Arith", 3)]


def owns_value(problem, rec):
    kinds = {p[0] for p in rec["_problems"]}
    if "app" in kinds:
        return False          # some single application is wrong: arithmetic, not grouping
    return problem[0] in ("result", "count", "panic")


def owns_parse(problem, rec):
    return problem == "refines" or problem == "parser-failed"


def model_parser(chk, p):
    w = vlib.workdir("c06-cfg")
    for alpha, n in p["parser"]:
        cfg = lang.mc_cfg(os.path.join(w, "p-%s.cfg" % alpha), consts=dict(lang.PARSER_REPAIRED, N=n), fac=None,
                          subst=["Alphabet <- %s" % alpha], invariants=["LosslessInv", "RefinesInv", "SoundInv"])
        t = tlc("MC_Parser", cfg, workers=12, timeout=3000, xmx="12g")
        expect_holds(t, "MC_Parser %s <= %d" % (alpha, n))
        chk.model("MC_Parser %s N=%d" % (alpha, n), t, "every token string: Lossless, Refines, Sound")
    for flag, alpha, n in PINNED:
        cfg = lang.mc_cfg(os.path.join(w, "pin-%s.cfg" % flag), consts=dict(lang.PARSER_REPAIRED, N=n, **{flag: "TRUE"}), fac=None,
                          subst=["Alphabet <- %s" % alpha], invariants=["RefinesInv"])
        t = tlc("MC_Parser", cfg, workers=6, timeout=600)
        if t.violated != "RefinesInv":
            raise ToolError("as-pinned constant %s no longer violates Refines in the model" % flag)
        chk.model("MC_Parser %s=TRUE" % flag, t, "regression: the repaired defect violates Refines (expected)")


def model_gen(chk, p):
    w = vlib.workdir("c06-gen")
    vecs = []
    for k, kmin, layouts in p["gens"]:
        consts = dict(lang.PARSER_REPAIRED, K=k, KMin=kmin, LeafSet='"pos"', OpSet='"cast"', LayoutSet=layouts, Emit="TRUE",
                      ZeroPowEarlyExit="FALSE", ZeroEntriesKept="FALSE", Temperature="FALSE")
        cfg = lang.mc_cfg(os.path.join(w, "gen%d.cfg" % k), consts=consts, invariants=["RenderParses", "ParserRefines", "EmitInv"])
        t = tlc("MC_Eval", cfg, workers=12, timeout=6000, xmx="14g")
        expect_holds(t, "MC_Eval (grammar side)")
        chk.model("MC_Eval pos/cast %d..%d operators, layouts %s" % (kmin, k, layouts), t,
                  "every operator sequence x parenthesisation x layout: RenderParses, ParserRefines")
        vecs += [v for tag, v in t.vecs]
    consts2 = dict(consts, K=2, KMin=0, LeafSet='"primes"', LayoutSet='"two"' if chk.tier == "quick" else '"all"')
    cfg2 = lang.mc_cfg(os.path.join(w, "gen2.cfg"), consts=consts2, invariants=["RenderParses", "ParserRefines", "EmitInv"])
    t2 = tlc("MC_Eval", cfg2, workers=12, timeout=3000, xmx="12g")
    expect_holds(t2, "MC_Eval (calls as operands)")
    chk.model("MC_Eval primes+call/cast K=2", t2, "function call operands, three cast targets")
    return vecs + [v for tag, v in t2.vecs]


UNITS_LEN = ["m", "km", "cm", "mm", "ft", "in", "yd", "mi"]


def gen_mixed(rnd):
    """random deeper expression: calls, parenthesised groups, quantities of one dimension, a final cast"""
    def num():
        return lang.rand_literal(rnd, maxdigits=4, allow_exp=False)

    def plain(d):
        if d <= 0 or rnd.random() < 0.3:
            c = rnd.random()
            if c < 0.15:
                a = rnd.choice(["", " "])
                arg = plain(d - 1)
                if rnd.random() < 0.3:
                    arg = "(" + arg + ")"            # a wholly parenthesised argument
                return "%s(%s%s%s)" % (rnd.choice(["round", "floor", "ceil"]), a, arg, a)
            if c < 0.22:
                return "round(%s%s,%s%s%s)" % (plain(d - 1), rnd.choice(["", " "]), rnd.choice(["", " "]), rnd.choice(["%d", "(%d)"]) % rnd.randint(0, 3), rnd.choice(["", " "]))
            return num()
        op = rnd.choice(["+", "-", "*", "/", "^"])
        l = plain(d - 1)
        r = str(rnd.randint(0, 3)) if op == "^" else plain(d - 1)
        if rnd.random() < 0.5:
            l = "(" + l + ")"
        if rnd.random() < 0.5 or op == "^" and " " in r:
            r = "(" + r + ")"
        if op in "+-":
            return l + rnd.choice([" ", "  "]) + op + rnd.choice([" ", "\t"]) + r
        sp = rnd.choice(["", " "])
        return l + sp + op + sp + r

    def qty():
        n = num()
        return n + rnd.choice(["", " "]) + rnd.choice(UNITS_LEN)

    def length(d):
        if d <= 0 or rnd.random() < 0.3:
            c = rnd.random()
            if c < 0.2:
                return qty() + " * " + plain(1)
            if c < 0.3:
                return plain(1) + " * " + qty()
            if c < 0.4:
                return qty() + " / " + plain(0)
            return qty()
        l, r = length(d - 1), length(d - 1)
        if rnd.random() < 0.4:
            r = "(" + rnd.choice(["", " "]) + r + rnd.choice(["", " "]) + ")"
        if rnd.random() < 0.3:
            l = "(" + l + ")"
        return l + rnd.choice([" + ", " - ", "  +  "]) + r

    if rnd.random() < 0.5:
        s = plain(rnd.randint(2, 5))
    else:
        s = length(rnd.randint(1, 3))
        if rnd.random() < 0.6:
            s += rnd.choice([" to ", "  to "]) + rnd.choice(UNITS_LEN)
    if rnd.random() < 0.15:
        s = rnd.choice([" ", "\t ", "  "]) + s
    if rnd.random() < 0.15:
        s += rnd.choice([" ", "  "])
    return s


def run_strings(chk, strings, name, label, chunk=3000):
    path = lang.record(strings, name, tokens=True)
    res = lang.validate(chk, path, name + "-val", label=label + " (values)", chunk=chunk)
    chk.cov["traces_validated_against_impl"] -= res.records      # the same records are validated twice; count them once
    resp = lang.validate(chk, path, name + "-parse", module="Trace_Parse", label=label + " (tokens and tree)", chunk=chunk)
    chk.evals(res.records)
    lang.judge(chk, res, owns_value, "every operator application agrees with the specification but the result of the whole "
               "expression does not: the expression was grouped differently from the documented grammar")
    for m in resp.mismatches:
        rec = m["rec"] or {}
        mine = [p for p in m["problems"] if owns_parse(p, rec)]
        if mine:
            chk.violation("%s: tree %s" % (rec.get("text"), ",".join(mine)),
                          {"kind": "query", "text": rec.get("text"), "what": "the evaluator's walk of the real syntax tree does not yield the "
                           "expression the documented grammar reads", "problems": m["problems"], "tree": rec.get("tree")})
        other = [p for p in m["problems"] if not owns_parse(p, rec)]
        if other:
            chk.drift("%r: %s" % (rec.get("text"), ",".join(other)))
    return res, resp, vlib.read_ndjson(path)


def nontrivial(chk, recs):
    # an expression is non-trivial when it mixes at least two precedence levels or contains a parenthesis
    for r in recs:
        ops = {a["op"] for a in r["apps"]}
        levels = {1 if o == "to" else 2 if o in "+-" else 3 if o in "*/" else 10 for o in ops if o in ("to", "+", "-", "*", "/", "^")}
        if len(levels) >= 2 or ("(" in r["text"] and len(ops) >= 2):
            chk.nontrivial(r["text"])


def run(chk):
    p = TIERS[chk.tier]
    vlib.build_harness("release")
    model_parser(chk, p)
    vecs = model_gen(chk, p)
    strings = [v["src"] for v in vecs]
    res, resp, recs = run_strings(chk, strings, "c06-replay", "replay of renderings", chunk=5000)
    if resp.judged < len(strings) and not chk.violations:
        raise ToolError("only %d of %d emitted renderings were read as an expression by the reference grammar" % (resp.judged, len(strings)))
    nontrivial(chk, recs)
    for r in recs[len(recs) // 2: len(recs) // 2 + 3]:
        chk.sample({"query": r["text"], "result": lang.show(r)})
    rnd = random.Random(chk.seed + 6)
    rs = [gen_mixed(rnd) for _ in range(p["random"])] + lang.repo_test_queries()
    res2, resp2, recs2 = run_strings(chk, rs, "c06-random", "random expressions", chunk=1500)
    nontrivial(chk, recs2)
    for r in recs2[:3]:
        chk.sample({"query": r["text"], "result": lang.show(r)})
    chk.cov["exhaustive"] = False
    chk.cov["rule"] = ("model: every token string up to the tier's lengths per alphabet (exhaustive); replay: every tree with <= %d operators over "
                       "+ - * / ^ to (operands 2 3 5 7 11 13 by position, every parenthesisation) x layouts (exhaustive), each rendering = one "
                       "evaluation; random: %d deeper expressions + the repository's own test queries; non-trivial = mixes >= 2 precedence "
                       "levels or groups >= 2 operators with parentheses, distinct by query text" % (p["K"], p["random"]))
    chk.cov["grammar_accepted"] = resp.judged + resp2.judged
    chk.assumptions += [
        "exponents are replayed only up to two digits (the tool computes powers by repeated multiplication)",
        "a differing result is attributed to grouping only when every operator application recorded by the hook agrees with the specification",
    ]


def replay(chk, case):
    vlib.build_harness("release")
    run_strings(chk, [case["text"]], "c06-replayed", "replay")
