"""C14 - fact lookups do not depend on how the index was built.

model  : spec/IndexBuild.tla -- one indexing worker: Deterministic + ShippedOrder hold; several
         workers: Deterministic fails (kept as a regression of the specification)
traces : `conform c14-trace` records a history of sessions (k in-memory builds, first on-disk build,
         reopen, rebuild after the stored hash changed, reopen, in-memory) x phrase set with the
         lookup hook exposing the tie sets; spec/Trace_IndexBuild.tla accepts the history iff every
         phrase gets the same document in every session.
"""
import json, os
import vlib
from vlib import tlc, expect_holds, ToolError

LEVEL = "model_checking"
TIERS = {"quick": dict(mem=4, queries=1500, rounds=1), "thorough": dict(mem=12, queries=6000, rounds=4)}


def model(chk):
    t = tlc("IndexBuild", "MC_IndexBuild_1.cfg", workers=2)
    expect_holds(t, "IndexBuild one worker")
    chk.model("MC_IndexBuild_1.cfg", t, "one indexing worker, 5 documents, every tie set: Deterministic, ShippedOrder")
    t = tlc("IndexBuild", "MC_IndexBuild_n.cfg", workers=2)
    if t.violated != "Deterministic":
        raise ToolError("IndexBuild with several workers no longer violates Deterministic")
    chk.model("MC_IndexBuild_n.cfg", t, "regression: 3 workers violate Deterministic (expected)")


def validate(chk, events, nphrases, label):
    w = vlib.workdir("c14-trace")
    sessions_ok = 0
    rounds = 0
    nsessions = len([e for e in events if e["ev"] == "session"])
    while rounds < 8:
        rounds += 1
        path = os.path.join(w, "t%d.ndjson" % rounds)
        vlib.write_ndjson(path, events)
        t = tlc("Trace_IndexBuild", "Trace_IndexBuild.cfg", workers=1, env={"TRACE": path, "NPHRASES": nphrases},
                timeout=1800, xmx="12g")
        if t.error or t.violated:
            raise ToolError("trace validation failed to run: %s" % (t.error or t.violated)[:800])
        reached = noncanon = None
        for line in t.printed:
            if line.startswith('<<"REACHED"'):
                parts = line.strip("<>").split(",")
                reached, noncanon = int(parts[1]), int(parts[3])
                badlayout = int(parts[4]) if len(parts) > 4 else 0
                if badlayout:
                    chk.drift("%d freshly built on-disk indexes are not one segment in shipped order" % badlayout)
        if reached is None:
            raise ToolError("no REACHED line from Trace_IndexBuild")
        chk.model("Trace_IndexBuild(%s, %d events)" % (label, len(events)), t, "trace validation")
        if noncanon:
            chk.drift("%d lookups won by a document that is not the earliest tied one in shipped order" % noncanon)
        if reached == len(events) + 1:
            return True
        bad = events[reached - 1]
        if bad["ev"] != "lookup":
            raise ToolError("trace rejected at a non-lookup event %s" % bad)
        same = [e for e in events if e["ev"] == "lookup" and e["q"] == bad["q"]]
        chk.violation("phrase=%s answered by different documents in different sessions" % bad["phrase"],
                      {"kind": "history", "phrase": bad["phrase"],
                       "answers": [{"session": e["s"], "win": e["win"], "tie": e["tie"]} for e in same],
                       "sessions": [e for e in events if e["ev"] == "session"]})
        events = [e for e in events if not (e["ev"] == "lookup" and e["q"] == bad["q"])]
    return False


def binding_selftest(chk, events, nphrases):
    """one recorded answer changed to another tied document: the validator has to stop at that event"""
    import copy
    seen = {}
    target = None
    for k, e in enumerate(events):
        if e["ev"] == "lookup":
            if e["q"] in seen and len(e["tie"]) > 1 and e["win"] == e["tie"][0]:
                target = k
            seen[e["q"]] = k
    if target is None:
        return
    ev = copy.deepcopy(events)
    ev[target]["win"] = ev[target]["tie"][1]
    w = vlib.workdir("c14-selftest")
    path = os.path.join(w, "t.ndjson")
    vlib.write_ndjson(path, ev)
    t = tlc("Trace_IndexBuild", "Trace_IndexBuild.cfg", workers=1, env={"TRACE": path, "NPHRASES": nphrases}, timeout=1800, xmx="12g")
    reached = None
    for line in t.printed:
        if line.startswith('<<"REACHED"'):
            reached = int(line.strip("<>").split(",")[1])
    ok = reached == target + 1
    vlib.log("[selftest] Trace_IndexBuild: answer of event %d changed to another tied document: %s" % (target + 1, "rejected there" if ok else "NOT rejected (reached %s)" % reached))
    chk.cov.setdefault("binding_selftest", {})["Trace_IndexBuild"] = {"another tied document answers in one session": "rejected at that event" if ok else "accepted"}
    if not ok:
        raise ToolError("binding self-test: Trace_IndexBuild accepted a history in which one session answers with another tied document")


def one_history(chk, p, seed, label):
    w = vlib.workdir("c14-run")
    out = os.path.join(w, "trace.ndjson")
    pr = vlib.conform(["c14-trace", "--out", out, "--work", os.path.join(w, "dirs"), "--repo", vlib.REPO,
                       "--mem-builds", p["mem"], "--queries", p["queries"], "--seed", seed], timeout=3600)
    info = json.loads(pr.stdout.strip().splitlines()[-1])
    events = vlib.read_ndjson(out)
    for pb in info["problems"]:
        if pb["what"].startswith("returned constant"):
            chk.drift(json.dumps(pb))
        else:
            chk.drift("session behaviour: " + json.dumps(pb))
    chk.cov["on_disk_layouts_read"] = chk.cov.get("on_disk_layouts_read", 0) + info.get("layouts", 0)
    chk.cov["layouts_differing_between_builds"] = chk.cov.get("layouts_differing_between_builds", 0) + info.get("layouts_differ", 0)
    chk.cov["witness_phrases_asked"] = chk.cov.get("witness_phrases_asked", 0) + info.get("witness_phrases", 0)
    if info["order_mismatch"]:
        chk.drift("documents were added in a different order in %d rebuilds" % info["order_mismatch"])
    lookups = [e for e in events if e["ev"] == "lookup"]
    chk.evals(len(lookups))
    for e in lookups:
        if len(e["tie"]) > 1:
            chk.nontrivial(e["phrase"])
    ok = validate(chk, events, info["phrases"], label)
    if ok:
        chk.cov["traces_validated_against_impl"] += len(info["sessions"])
        if "Trace_IndexBuild" not in chk.cov.get("binding_selftest", {}):
            binding_selftest(chk, events, info["phrases"])
    for e in [e for e in lookups if len(e["tie"]) > 1][:3]:
        chk.sample({"phrase": e["phrase"], "session": e["s"], "winner_shipped_position": e["win"], "tied": e["tie"]})
    return info


def run(chk):
    p = TIERS[chk.tier]
    vlib.build_harness("release")
    model(chk)
    info = None
    for r in range(p["rounds"]):
        info = one_history(chk, p, chk.seed + r, "history %d" % r)
    chk.cov["rule"] = ("one evaluation = one lookup of a phrase in one session of the history %s; phrases are facts' own word lists, "
                       "single tokens and 1-3 letter prefixes; non-trivial = phrase whose best score is shared by >= 2 documents "
                       "(tie visible in the hook's top-8 list), distinct by phrase" % info["sessions"])
    chk.assumptions += [
        "the interleaving of tantivy's indexing workers cannot be controlled from outside: the implementation side is statistical over repeated builds, the model side exhaustive",
        "tie sets are read from the best 8 documents; larger tie sets are compared by winner only",
        "878 small documents stay within one segment per worker (no budget-triggered flush)",
    ]


def replay(chk, case):
    vlib.build_harness("release")
    p = dict(TIERS["quick"])
    info = one_history(chk, p, chk.seed, "replay")
    print("phrase %r: see violations above (the check re-records a history; the interleaving is not reproducible)" % case.get("phrase"))
