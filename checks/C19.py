"""C19 - the command line prints exactly what the library computed.

model  : spec/Cli.tla + MC_Cli -- the composition of a printed line (exact: numerator[/denominator]; decimal otherwise; a blank iff the
         unit has a numerator part; singular iff the value is one), one diagnostic block per error without aborting, the description
         block; MC_Cli checks that the prescribed output is accepted and single corruptions (dropped line, blank always, plural for
         one) are rejected, on all result lists up to 3 over {integer, fraction, one, error} x {unit kinds}.
traces : queries (values, units, errors, several results, facts) are run through the real `any` binary (default, --exact,
         --describe; private data directory, NO_COLOR) and evaluated in process with the library; spec/Trace_Cli.tla composes the
         expected lines from the library's results and compares them with standard output, and requires exit status 0.
"""
import os, random
import vlib, lang, factlib, ugen
from vlib import tlc, expect_holds, ToolError

LEVEL = "model_checking"
TIERS = {"quick": dict(queries=1500, syntax=500, syntax_n=2), "thorough": dict(queries=6000, syntax=6000, syntax_n=3)}
NAMES = {"EACUTE": "é", "EMSP": "\u2003", "DEG": "°"}
# characters of the strings whose syntax dump is compared (as C12's alphabet)
WIDE = list("0019.eE+-*/^%(){}, \t atomkZ'_\"=#x") + ["°", "é", "日", "😀", "\u00a0", "\u2003", "μ", "Ω", "\n", "to", " to ", "**", "1.5", "round(", "{a b}"]


def generate(rnd, phrases, n):
    v = ugen.Vocab()
    ug = ugen.UnitGen(v, rnd, maxpow=2)
    out = []
    for _ in range(n):
        c = rnd.random()
        if c < 0.2:
            out.append(lang.gen_numeric(rnd, rnd.randint(1, 3), maxdigits=5))
        elif c < 0.45:
            q, _ = ugen.quantity(rnd, ug)
            if rnd.random() < 0.5:
                q2, _ = ugen.quantity(rnd, ug)
                q = "%s %s %s" % (q, rnd.choice("*/"), q2)
            out.append(q)
        elif c < 0.55:
            out.append(rnd.choice(phrases))
        elif c < 0.62:
            # several facts in one query (the description block lists them in the order of evaluation, whatever their sources)
            ps = [rnd.choice(phrases) for _ in range(rnd.randint(2, 4))]
            if rnd.random() < 0.5:
                out.append(ps[0] + "".join(rnd.choice([" * ", " / "]) + x for x in ps[1:]))
            else:
                out.append(" ".join("(%s)" % x for x in ps))
        elif c < 0.7:
            out.append("%s * %d" % (rnd.choice(phrases), rnd.randint(1, 9)))
        elif c < 0.8:
            # several results and errors in one query
            parts = [rnd.choice(["1 / 0", "2 m + 3 s", str(rnd.randint(1, 50)), "%d m" % rnd.randint(1, 5), "10 / 4", rnd.choice(phrases), "1 decade", "2 decades",
                                 "1 m/decade", "10 / 2s", "1 / 1 s", "4 m/decade", "%d m^%d" % (rnd.randint(1, 3), rnd.choice([2, 10, 12, 13])), "1 / 0", "nosuchfact here", "%d m^0" % rnd.randint(1, 3), str(rnd.randint(10 ** 8, 10 ** 12)),
                                 "0.%s%d" % ("0" * rnd.randint(7, 11), rnd.randint(1, 999))]) for _ in range(rnd.randint(2, 4))]
            out.append(" ".join("(%s)" % x for x in parts))      # several root-level expressions = several results
        elif c < 0.9:
            u = rnd.choice(["s", "decade", "m/s", "m/decade", "1/s", "kg", "ft", "century", "J/century", "hours", "inches", "m^12", "m^10", "s^-13"])
            out.append("%s %s" % (rnd.choice(["1", "2", "1.0", "0.5", "3/3", "10"]), u))
        else:
            out.append(rnd.choice(["1 +", "(1 + 2", "2 m + 3 s", "1 / 0", "foo bar baz", "1 ft to s", "0 ^ -1", "round()", "1 2 3", ") 5", "5 $ 6"]))
        if rnd.random() < 0.08:
            # blanks in front of and behind the query: the ranges of the library are ranges in the query as given
            out[-1] = " " * rnd.randint(1, 3) + out[-1] + " " * rnd.randint(0, 2)
    return out


def unit_names(chk, name="c19-names"):
    """how the tool spells each single unit, singular and plural (`1 <unit>`, `2 <unit>` through the library), and the
    non-ASCII symbols of unit display; the *composition* of a compound's text is UnitDisplay.tla's"""
    import json
    v = ugen.Vocab()
    rnd = random.Random(3)
    qs, keys = [], []
    for k, u in v.units.items():
        w, e = v.word_for(rnd, k, allow_prefix=False)
        if not w:
            cand = [n for n in u["names"] if v.typable(n)]
            if not cand:
                continue
            w = cand[0]
        qs.append("1 " + w)
        keys.append(k)
    w_ = vlib.workdir(name)
    inp, out = os.path.join(w_, "q.ndjson"), os.path.join(w_, "rec.ndjson")
    vlib.write_ndjson(inp, qs + [")"] * 3)
    vlib.conform(["c19-record", "--in", inp, "--out", out, "--any", vlib.conform_bin("release", "any"), "--ids", lang.IDS])
    # frame and mark of the diagnostic renderer, measured from the block printed for `)` (their placement is Cli.tla's)
    glyphs = {"corner": "\u250c\u2500", "bar": "\u2502", "caret": "^"}
    for r in vlib.read_ndjson(out)[len(qs):]:
        so = r["stdout"]
        if r["mode"] == "default" and len(so) >= 5 and " <in>:" in so[1] and so[2].strip() and so[4].strip().startswith(so[2].strip() + " "):
            bar = so[2].strip()
            glyphs = {"corner": so[1].strip().split(" <in>:")[0], "bar": bar, "caret": so[4].strip()[len(bar) + 1:].lstrip(" ")[:1]}
    names = {k: {"sg": "?" + k, "pl": "?" + k} for k in v.units}
    for k, r in zip(keys, vlib.read_ndjson(out)):
        if len(r["results"]) == 1 and r["results"][0]["k"] == "val" and len(r["results"][0]["u"]) == 1 and r["results"][0]["u"][0][0] == k:
            x = r["results"][0]
            px = x["u"][0][2] + (3 if k == "KiloGram" else 0)
            if px == 0 and x["u"][0][1] == 1:
                names[k] = {"sg": x["unit_singular"], "pl": x["unit_plural"]}
    np_, sp_ = os.path.join(w_, "names.json"), os.path.join(w_, "syms.json")
    with open(np_, "w") as f:
        json.dump(names, f, ensure_ascii=False)
    with open(sp_, "w") as f:
        json.dump(dict({"dot": "\u22c5", "sup": ["\u2070", "\u00b9", "\u00b2", "\u00b3", "\u2074", "\u2075", "\u2076", "\u2077", "\u2078", "\u2079"], "micro": "\u03bc"}, **glyphs), f)
    measured = sum(1 for k in names if not names[k]["sg"].startswith("?"))
    return np_, sp_, measured


def run(chk):
    p = TIERS[chk.tier]
    vlib.build_harness("release")
    t = tlc("MC_Cli", "MC_Cli.cfg", workers=4, timeout=1800)
    expect_holds(t, "MC_Cli")
    chk.model("MC_Cli MaxLen=3", t, "Accepts; RejectsDropped, RejectsAlwaysBlank, RejectsPluralOne")
    facts = factlib.shipped("c19-facts")
    phrases = factlib.phrases(facts)
    rnd = random.Random(chk.seed + 19)
    queries = generate(rnd, phrases, p["queries"]) + ["10 / 2s", "4 m/decade", "3 J/century", "2 m^12", "1 m^10", "1 /s^13", "2 * pi", "pi", "speed of light", "1 decade", "2 decade",
                                                     "1 decades/s", "7 / 2", "1 / 3 m", "2 m^0", "2 decade m^0", "2 decade^0 m", "(1/0) (2/0) (3)", "(foo) (3m) (foo)", "123456789", "1c to m/s", "0.000000001234", "12345678901 m",
                                                     " (1m + 1s) (2m)", "  1 / 0", " 2 m + 3 s ", "   (1) (1 ft to s)  ", " foo bar baz"]
    w = vlib.workdir("c19-run")
    inp, out = os.path.join(w, "queries.ndjson"), os.path.join(w, "rec.ndjson")
    vlib.write_ndjson(inp, queries)
    vlib.conform(["c19-record", "--in", inp, "--out", out, "--any", vlib.conform_bin("release", "any"), "--ids", lang.IDS, "--modes4"], timeout=7200)
    np_, sp_, measured = unit_names(chk)
    chk.cov["unit_spellings_measured"] = measured
    res = lang.validate(chk, out, "c19-val", module="Trace_Cli", label="runs of the binary", chunk=400, env={"NAMES": np_, "SYMS": sp_})
    chk.evals(res.records)
    for m in res.mismatches:
        rec = m["rec"] or {}
        chk.violation("any %s %r: %s" % ("" if rec.get("mode") == "default" else "--" + rec.get("mode"), rec.get("text"), ",".join(m["problems"])),
                      {"kind": "cli", "text": rec.get("text"), "mode": rec.get("mode"), "library_results": rec.get("results"), "library_descriptions": rec.get("descs"),
                       "stdout": rec.get("stdout"), "stderr": rec.get("stderr"), "exit": rec.get("exit"),
                       "what": ("the diagnostic block of an error does not show the library's message at the library's range (Cli.tla, DiagBlock)" if "diagnostic" in m["problems"] else
                                "standard output of the binary is not the composition of the library's results the specification prescribes")})
    syntax_dumps(chk, rnd, queries, p, np_, sp_)
    recs = vlib.read_ndjson(out)
    for r in recs:
        kinds = {x["k"] for x in r["results"]}
        if len(r["results"]) >= 2 or (r["results"] and r["results"][0]["k"] == "val" and r["results"][0]["unit_plural"]):
            chk.nontrivial([r["mode"], r["text"]])
    chk.cov["diagnostic_blocks_prescribed_in_full"] = sum(1 for r in recs if r.get("plain") for x in r["results"] if x["k"] == "err")
    chk.cov["distinct_error_ranges_underlined"] = len({(x["s"], x["e"]) for r in recs if r.get("plain") for x in r["results"] if x["k"] == "err"})
    chk.cov["exhaustive"] = False
    chk.cov["rule"] = ("one evaluation = one run of the real binary (modes default / --exact / --describe / the flag behind the query / the query handed over in blank-separated pieces, in rotation; --syntax in a pass of its own) compared with the library's in-process results; "
                       "queries: numeric expressions, quantities over the whole vocabulary, fact phrases, comma-separated lists with values and errors, "
                       "pluralisable and denominator-only units, malformed input; non-trivial = >= 2 results or a value with a unit, distinct by (mode, text)")
    for r in recs[:3]:
        chk.sample({"mode": r["mode"], "query": r["text"], "stdout": r["stdout"][:3]})
    chk.assumptions += ["the decimal rendering (C08) and the spelling of each single unit (singular / plural) are taken from the library; blank, plural rule, prefix symbol, "
                        "superscript powers, order and separators of a compound unit are composed by the specification (UnitDisplay.tla)", "the binary is run with NO_COLOR=1 and a private data directory",
                        "the frame and mark characters of a diagnostic block are measured from the block the tool prints for `)`; the block is prescribed in full (place, echo of the query, "
                        "underline of exactly the library's range, message) for queries that are one line of printable ASCII, otherwise only its first line"]


def syntax_dumps(chk, rnd, queries, p, np_, sp_):
    """`any --syntax`: the dump must be the tree Parser.tla builds from Lexer.tla's tokens (Syntax.tla), followed by the
    results as in default mode.  The dump is not part of C19's statement: a different dump is reported as drift; the
    result lines behind it are C19's."""
    # every string up to a length over one representative per character class, from the model
    cfg = lang.mc_cfg(os.path.join(vlib.workdir("c19-cfg"), "syntax.cfg"), consts=dict(lang.PARSER_REPAIRED, N=p["syntax_n"], Emit="TRUE"), fac=None,
                      invariants=["DumpCoversInput", "EmitInv"])
    t = tlc("MC_Syntax", cfg, workers=4, timeout=1800)
    expect_holds(t, "MC_Syntax")
    chk.model("MC_Syntax N=%d" % p["syntax_n"], t, "every string over 22 class representatives: the dump covers the input; strings emitted for the binary")
    qs = ["".join(NAMES.get(c, c) for c in v["src"]) for tag, v in t.vecs]
    qs += [q for k, q in enumerate(queries) if k % 4 == 0][:p["syntax"] // 2]
    for _ in range(p["syntax"] // 2):
        qs.append("".join(rnd.choice(WIDE) for _ in range(rnd.randint(1, 24))))
    qs += ["", " ", "(1)(2)", "2 (3)", "1 +", "((1)", "a \"b\" \\ c", "1\t+\n2", "\r", "\x0b1", "{speed of light} / 2", "f(1,,2)", "1 to", "'"]
    w = vlib.workdir("c19-syntax")
    inp, out = os.path.join(w, "queries.ndjson"), os.path.join(w, "rec.ndjson")
    vlib.write_ndjson(inp, qs)
    vlib.conform(["c19-record", "--in", inp, "--out", out, "--any", vlib.conform_bin("release", "any"), "--ids", lang.IDS, "--mode", "syntax"], timeout=7200)
    res = lang.validate(chk, out, "c19-syntax-val", module="Trace_Cli", label="syntax dumps of the binary", chunk=400, env={"NAMES": np_, "SYMS": sp_})
    chk.evals(res.records)
    chk.cov["syntax_dumps_compared"] = res.records
    for m in res.mismatches:
        rec = m["rec"] or {}
        if "syntax-dump" in m["problems"]:
            chk.drift("any --syntax %r: the dump is not the tree of the specification: %s" % (rec.get("text"), rec.get("stdout", [])[:6]))
        else:
            chk.violation("any --syntax %r: %s" % (rec.get("text"), ",".join(m["problems"])),
                          {"kind": "cli", "text": rec.get("text"), "mode": "syntax", "library_results": rec.get("results"), "stdout": rec.get("stdout"),
                           "stderr": rec.get("stderr"), "exit": rec.get("exit"),
                           "what": "the lines behind the syntax dump are not the library's results as the specification composes them"})
    for r in vlib.read_ndjson(out):
        if len(r["stdout"]) >= 4:
            chk.nontrivial(["syntax", r["text"]])


def replay(chk, case):
    vlib.build_harness("release")
    w = vlib.workdir("c19-replay")
    inp, out = os.path.join(w, "queries.ndjson"), os.path.join(w, "rec.ndjson")
    vlib.write_ndjson(inp, [case["text"]])
    vlib.conform(["c19-record", "--in", inp, "--out", out, "--any", vlib.conform_bin("release", "any"), "--ids", lang.IDS, "--mode", case["mode"]])
    np_, sp_, _ = unit_names(chk, "c19-replay-names")
    res = lang.validate(chk, out, "c19-replay-val", module="Trace_Cli", label="replay", env={"NAMES": np_, "SYMS": sp_})
    for m in res.mismatches:
        if (m["rec"] or {}).get("text") == case["text"]:
            chk.violation("replayed %r: %s" % (case["text"], m["problems"]), case)
