"""C02 - addition, subtraction and casts are allowed exactly between commensurable units.

model  : spec/MC_Units.tla -- factor() as transcribed from compound.rs / powers.rs accepts exactly the pairs with
         equal base-dimension vectors (FactorIff) on a sub-vocabulary; Powers::insert as originally pinned
         (ZeroEntriesKept) must be rejected.
traces : pairs of unit expressions over the whole vocabulary -- respellings with equal dimensions (other units of
         the same dimension, expansion into base units, cancelling quotients, prefixes) and near misses --
         in `1 a + 1 b`, `1 a - 1 b`, `1 a to b`, and plain numbers on either side of + and -.
         spec/Trace_Lang.tla decides from the characters alone whether each must succeed, fail, and which
         unit a plain number adopts.  Offset scales are C09's subject; wrong *values* are C03's.
"""
import os, random
import vlib, lang, ugen
from vlib import tlc, expect_holds, ToolError

LEVEL = "model_checking"
TIERS = {"quick": dict(pairs=12000, wide="FALSE"), "thorough": dict(pairs=60000, wide="TRUE")}
MINE = {"error-expected", "unexpected-error", "dims", "unit", "divzero-gave-value", "zero-power-in-unit"}


def owns(problem, rec):
    if problem[0] == "result":
        return problem[2] in MINE
    if problem[0] == "app":
        return problem[2] in ("+", "-", "to") and problem[3] in MINE
    return problem[0] in ("count", "panic")


def model(chk, p):
    w = vlib.workdir("c02-cfg")
    cfg = lang.mc_cfg(os.path.join(w, "units.cfg"), consts=dict(Wide=p["wide"], ZeroEntriesKept="FALSE"), invariants=["FactorIff"])
    t = tlc("MC_Units", cfg, workers=12, timeout=6000, xmx="12g")
    expect_holds(t, "MC_Units FactorIff")
    chk.model("MC_Units Wide=%s" % p["wide"], t, "FactorIff on the sub-vocabulary")
    cfg = lang.mc_cfg(os.path.join(w, "pinned.cfg"), consts=dict(Wide="FALSE", ZeroEntriesKept="TRUE"), invariants=["FactorIff"])
    t = tlc("MC_Units", cfg, workers=6, timeout=900)
    if t.violated != "FactorIff":
        raise ToolError("ZeroEntriesKept = TRUE no longer violates FactorIff in the model")
    chk.model("MC_Units ZeroEntriesKept=TRUE", t, "regression: zero entries kept by Powers::insert violate FactorIff (expected)")


FIXED = ["1 m to s to m", "1 V*A to J to W", "5 to m to s", "1 km to m to s", "1 m^2 + 1 m", "1 m/s - 1 m/s^2", "1 N*m to N/m", "1m + 0s", "1m - 0kg", "0 m + 1 s", "1m + (2s - 2s)", "1 + 0m", "0 + 1m", "1 J/Nm + 1 s", "1 Nm/J to s", "1 kg to W/VA", "1J/N to m", "1 m + 1 J/N", "1J/N + 1m", "1V*A to W", "1 W - 1 V*A", "1C/s to A", "1 A + 1 C/s", "1 N*m to J", "1 Pa*m^2 to N",
         "3 + 1m", "1m + 3", "3 - 1m", "1m - 3", "1 kg to m", "1 m + 1 s", "1 W to J", "1 J/s to W", "1 m^2 to ha", "1 l to m^3", "1 l to m^2",
         "1 km/h to m/s", "1 kt to m/s", "1 Hz to s", "1 Bq to s^-1", "1 ohm to V/A", "1 S to A/V", "1 F to C/V", "1 H to Wb/A", "1 T to Wb/m^2",
         "1 lx to lm/m^2", "1 Gy to J/kg", "1 kat to mol/s", "2 ft + 3 in", "2 ft - 3 lb", "5 mi/hr to km/s", "1 acre to ft^2", "1 gal to l"]


def generate(rnd, n):
    v = ugen.Vocab()
    ug = ugen.UnitGen(v, rnd, maxpow=2)
    out = []
    FAR = [7, 31, 64, 127, 128, 129, 255, 256, 257, 511, 512, 1000, 32767, 32768, 65535, 65536, 65537, 99999]
    EXPAND = {"N": [("kg", 1), ("m", 1), ("s", -2)], "J": [("kg", 1), ("m", 2), ("s", -2)], "W": [("kg", 1), ("m", 2), ("s", -3)], "Pa": [("kg", 1), ("m", -1), ("s", -2)],
              "Hz": [("s", -1)], "C": [("A", 1), ("s", 1)], "V": [("kg", 1), ("m", 2), ("s", -3), ("A", -1)]}
    for _ in range(n):
        if rnd.random() < 0.06:
            # large powers: the dimension vectors of the two sides agree, or differ by a power of two (an exponent kept in
            # too narrow a type), or by one
            u = rnd.choice(["m", "s", "kg", "A", "mol", "cd"] + sorted(EXPAND))
            pw = rnd.choice(FAR) * rnd.choice([1, 1, -1])
            delta = rnd.choice([0, 0, 0, 1, -1, 256, -256, 512, 65536, -65536, 2 * pw if abs(pw) < 40000 else 256])
            left = "%s^%d" % (u, pw)
            if u in EXPAND and rnd.random() < 0.6 and abs(pw) < 40000:
                right = "*".join("%s^%d" % (b, e * pw + (delta if k == 0 else 0)) for k, (b, e) in enumerate(EXPAND[u]))
            elif pw + delta == 0:
                right = "%s^%d" % (u, pw)
            else:
                right = "%s^%d" % (u, pw + delta)
            extra = rnd.choice(["", "", " s", " m"]) if u not in ("s", "m") else ""
            ma, mb = ugen.magnitude(rnd, True), ugen.magnitude(rnd, True)
            out.append(rnd.choice(["%s %s%s + %s %s%s" % (ma, left, extra, mb, right, extra), "%s %s%s - %s %s%s" % (ma, left, extra, mb, right, extra),
                                   "%s %s%s to %s%s" % (ma, left, extra, right, extra), "%s %s%s to %s%s" % (ma, right, extra, left, extra)]))
            continue
        a = ug.expr()
        c = rnd.random()
        if c < 0.55:
            b = ug.respell(a)
        elif c < 0.85:
            b = ug.perturb(ug.respell(a) if rnd.random() < 0.5 else a)
        else:
            b = ug.expr()
        sa, sb = ug.spell(a), ug.spell(b)
        qa, qb = ugen.magnitude(rnd, True) + rnd.choice(["", " "]) + sa, ugen.magnitude(rnd, True) + rnd.choice(["", " "]) + sb
        form = rnd.random()
        if rnd.random() < 0.05:
            # an operand that only evaluates to zero
            qb = "(%s - %s)" % (qb, qb)
            form = rnd.random() * 0.5
        if form < 0.3:
            out.append("%s + %s" % (qa, qb))
        elif form < 0.5:
            out.append("%s - %s" % (qa, qb))
        elif form < 0.78:
            out.append("%s to %s" % (qa, sb))
        elif form < 0.85:
            # a chain of casts: every step must be judged, also when the last one brings the quantity back
            mid = ug.spell(ug.perturb(a) if rnd.random() < 0.6 else ug.respell(a))
            out.append("%s to %s to %s" % (qa, mid, sa if rnd.random() < 0.7 else sb))
        elif form < 0.9:
            out.append("%s + %s" % (ugen.magnitude(rnd, True), qa))
        elif form < 0.95:
            out.append("%s %s %s" % (qa, rnd.choice("+-"), ugen.magnitude(rnd, True)))
        else:
            out.append("%s - %s" % (ugen.magnitude(rnd, True), qa))
    return out


def run_strings(chk, strings, name, label, chunk=800):
    observed, _ = lang.observed_scales("c02-observed")
    path = lang.record(strings, name)
    res = lang.validate(chk, path, name, label=label, chunk=chunk, fac="ObsFacR", observed=observed)
    chk.evals(res.records)
    lang.judge(chk, res, owns, "the tool accepts an addition / subtraction / cast between quantities of different base dimensions, refuses one "
               "between commensurable quantities, or a plain number does not adopt the quantity's unit")
    recs = vlib.read_ndjson(path)
    for r in recs:
        # non-trivial: both operands carry units that are spelled differently
        for a in r["apps"]:
            if a["op"] in ("+", "-", "to") and len(a["args"]) == 2:
                u1, u2 = a["args"][0]["u"], a["args"][1]["u"]
                if u1 and u2 and sorted(x[0] for x in u1) != sorted(x[0] for x in u2):
                    chk.nontrivial(r["text"])
    return res, recs


def run(chk):
    p = TIERS[chk.tier]
    vlib.build_harness("release")
    model(chk, p)
    rnd = random.Random(chk.seed + 2)
    qt = lang.quantity_trees(chk, "c02-qty", k=2)
    run_strings(chk, qt, "c02-qtrees", "exhaustive small trees over quantities", chunk=1500)
    # every unit word in a dimensional context (C05's family): cast to a target of each kind of quantity as one factor of a
    # commensurable expression, and alone -- accepted exactly when the dimensions agree
    context = ugen.gen_context(random.Random(chk.seed + 22), ugen.Vocab(), p.get("context", 0.25))
    strings = FIXED + generate(rnd, p["pairs"]) + context
    res, recs = run_strings(chk, strings, "c02-pairs", "unit expression pairs")
    ok = sum(1 for r in recs if len(r["res"]) == 1 and r["res"][0]["k"] == "val")
    chk.cov["accepted_by_tool"] = ok
    chk.cov["refused_by_tool"] = len(recs) - ok
    chk.cov["decided_by_spec"] = res.decided
    chk.cov["skipped_out_of_domain"] = res.records - res.decided
    if res.decided < res.records // 3:
        raise ToolError("the specification decided only %d of %d generated pairs" % (res.decided, res.records))
    for r in recs[:2] + recs[len(FIXED):len(FIXED) + 3]:
        chk.sample({"query": r["text"], "result": lang.show(r)})
    chk.cov["exhaustive"] = False
    chk.cov["rule"] = ("one evaluation = one query `x a (+|-|to) y b` (or a plain number on one side) over the whole unit vocabulary with prefixes, powers "
                       "-2..2 (large powers in a family of their own), every unit word in a dimensional context (a share of C05's word x target x position family), "
                       "-2..2 and up to 4 (+2 cancelling) units per side; the specification decides Ok/Err and the adopted unit from the characters; "
                       "non-trivial = both sides carry units and the sets of units differ, distinct by query text; out of domain = a side the "
                       "specification cannot read unambiguously (ambiguous word, the same unit twice) or an offset scale")
    chk.assumptions += ["offset scales (degC, degF) are excluded here and checked under C09",
                        "a side the tool rejects on its own (e.g. the same unit under two prefixes) is outside the property's domain"]


def replay(chk, case):
    vlib.build_harness("release")
    run_strings(chk, [case["text"]], "c02-replayed", "replay")
