"""C17 - stored facts and units survive serialisation unchanged.

model  : spec/Codec.tla + MC_Codec -- the pinned identifier table of the 78 derived units (UnitTable.UId) is total,
         injective and its induced reading table is its inverse.  (Byte-level codec fidelity is not something a TLA+
         model speaks about; serde_cbor / serde_json are trusted for it.)
traces : every unit parsed from its names by the build under test: the identifier it is written with must be the pinned
         one, no two units may share one, and it must survive CBOR and JSON; random compounds over every unit with every
         prefix and powers; random big rationals (whole numbers around 2^64 and 2^128 included); every shipped constant
         decoded with the library's type and encoded again.  spec/Trace_Codec.tla compares.
"""
import json, os, random
import vlib, lang, ugen
from vlib import tlc, expect_holds, ToolError

LEVEL = "exploration"
TIERS = {"quick": dict(compounds=1500, rationals=1500), "thorough": dict(compounds=60000, rationals=60000)}


def run(chk):
    p = TIERS[chk.tier]
    vlib.build_harness("release")
    t = tlc("MC_Codec", "MC_Codec.cfg", workers=1)
    expect_holds(t, "MC_Codec")
    chk.model("MC_Codec", t, "pinned identifier table: total, injective, inverse of its reading table (78 derived units)")
    v = ugen.Vocab()
    rnd = random.Random(chk.seed + 17)
    w = vlib.workdir("c17-run")
    names = []
    for k, u in v.units.items():
        for n in u["names"]:
            if v.typable(n):
                names.append({"key": k, "name": n})
    # every spelling the build's generated unit parser knows (src/generated/unit.rs), so that a unit the vocabulary of the
    # specification has not heard of is still round-tripped
    import re
    known = {n for u in v.units.values() for n in u["names"]} | set(v.pref)
    try:
        src = open(os.path.join(vlib.REPO, "src", "generated", "unit.rs"), encoding="utf-8").read()
        toks = set(re.findall(r'#\[token\("([^"]+)"\)\]', src))
    except OSError:
        toks = set()
    unknown = sorted(t for t in toks - known if v.typable(t))
    for t in unknown:
        names.append({"key": "?", "name": t})
    chk.cov["spellings_of_the_build_unknown_to_the_vocabulary"] = unknown[:20]
    for t in unknown[:10]:
        chk.drift("the build's unit parser knows the spelling %r, the vocabulary of the specification does not" % t)
    ug = ugen.UnitGen(v, rnd, maxpow=3)
    comps = []
    for _ in range(p["compounds"]):
        comps.append(ug.spell(ug.expr()))
    # every prefix on some unit, every unit with some prefix
    for sym, long, e in v.prefixes:
        for base in ("m", "B", "W", "s", "g"):
            comps.append(sym + base)
        comps.append(long + "meter")
    rats = []
    for _ in range(p["rationals"]):
        c = rnd.random()
        bits = rnd.choice([8, 31, 32, 63, 64, 65, 100, 127, 128, 129, 300, 1000])
        n = rnd.getrandbits(bits) + (1 << (bits - 1)) if c < 0.7 else rnd.randint(0, 10 ** rnd.randint(1, 40))
        d = 1 if rnd.random() < 0.45 else rnd.getrandbits(rnd.choice([3, 20, 64, 70, 130])) + 1
        if rnd.random() < 0.3:
            n = -n
        rats.append({"n": str(n), "d": str(d)})
    for x in (2 ** 63, 2 ** 64, 2 ** 64 + 1, 2 ** 127, 2 ** 128, 5970000000000000000000000, 10 ** 30):
        rats += [{"n": str(x), "d": "1"}, {"n": str(-x), "d": "1"}, {"n": str(x - 1), "d": "1"}, {"n": "1", "d": str(x)}]
    fn, fu, fr, out = (os.path.join(w, x) for x in ("names.ndjson", "units.ndjson", "rationals.ndjson", "rec.ndjson"))
    vlib.write_ndjson(fn, names)
    vlib.write_ndjson(fu, comps)
    vlib.write_ndjson(fr, rats)
    pr = vlib.conform(["c17-record", "--out", out, "--repo", vlib.REPO, "--ids", lang.IDS, "--units", fu, "--rationals", fr, "--names", fn], timeout=3600)
    info = json.loads(pr.stdout.strip().splitlines()[-1])
    # Trace_Codec keeps a history of identifiers: one TLC process
    res = lang.validate(chk, out, "c17-val", module="Trace_Codec", label="codec records", chunk=10 ** 9, jobs=1)
    chk.evals(res.records)
    recs = vlib.read_ndjson(out)
    for m in res.mismatches:
        rec = m["rec"] or {}
        what = rec.get("text") or rec.get("name") or rec.get("before") or ("%s #%s" % (rec.get("file"), rec.get("i")))
        chk.violation("%s %s: %s" % (rec.get("kind"), what, ",".join(m["problems"])),
                      {"kind": rec.get("kind"), "record": {k: rec[k] for k in rec if k not in ("id",)},
                       "what": "a value does not survive serialisation unchanged, or a unit is not written with its pinned, unique identifier"})
    kinds = {}
    for r in recs:
        kinds[r["kind"]] = kinds.get(r["kind"], 0) + 1
        if r["kind"] == "compound" and r.get("parsed") and len(r["before"]) >= 2:
            chk.nontrivial(r["text"])
        if r["kind"] == "rational" and len(r["before"]) > 22:
            chk.nontrivial(r["before"])
    chk.cov["records_by_kind"] = kinds
    for k in ("unit", "compound", "rational", "constant"):
        for r in recs:
            if r["kind"] == k:
                chk.sample({x: r[x] for x in r if x != "id"})
                break
    chk.cov["shipped_constants_decoded"] = info["constants"]
    derived_seen = len({r["key"] for r in recs if r["kind"] == "unit" and r.get("derived")})
    chk.cov["derived_units_checked"] = derived_seen
    if derived_seen < 70:
        raise ToolError("only %d derived units could be parsed from their names" % derived_seen)
    chk.cov["exhaustive"] = True
    chk.cov["rule"] = ("exhaustive: every derived unit by each of its typable names (identifier written vs pinned table, CBOR and JSON round trip) and every shipped "
                       "constant (decode with the library's type, encode, compare); plus %d random compounds (every prefix) and %d random rationals up to 1000 bits; "
                       "non-trivial = a compound of >= 2 units or a rational beyond 64 bits" % (len(comps), len(rats)))
    chk.assumptions += ["byte-level fidelity of serde_cbor / serde_json is trusted; the specification owns the identifier tables and the round-trip contract",
                        "the pinned identifiers (vocab/ids.json) were extracted from the pinned tree"]


def replay(chk, case):
    print("C17 replays by re-running the check: the failing record was", json.dumps(case.get("record"), ensure_ascii=False)[:400])
    run(chk)
