"""C01 - numeric expressions evaluate to the exact rational value.

model  : spec/MC_Eval.tla -- every tree with <= K operators over a leaf alphabet; RenderParses,
         ValueLayers, DzPropagates; the as-pinned constant ZeroPowEarlyExit must violate DzPropagates
replay : every rendering of every tree (VEC lines) is evaluated by the real library and compared by
         spec/Trace_Lang.tla (value in F_p for four primes, Ok/Err, result count)
traces : seeded random trees (depth <= 8, literals up to hundreds of digits, fractions, exponent
         notation, percentages, negative powers, divisions by computed zeros): every operator
         application reported by the evaluation hook and every result is checked by TLC
"""
import os, random
import vlib, lang
from vlib import tlc, expect_holds, ToolError

LEVEL = "model_checking"
TIERS = {
    "quick": dict(K=2, leaves='"full"', layouts='"two"', random=2500, big=150, bigdigits=120),
    "thorough": dict(K=3, leaves='"small"', layouts='"two"', random=40000, big=4000, bigdigits=300),
}
NUMERIC_OPS = {"+", "-", "*", "/", "^"}


def owns(problem, rec):
    # every input of this check is a numeric expression: any disagreement about a result, the
    # number of results, an operator application or a panic contradicts the statement
    return True


def model(chk, p):
    w = vlib.workdir("c01-cfg")
    consts = dict(lang.PARSER_REPAIRED, K=p["K"], KMin=0, LeafSet=p["leaves"], OpSet='"arith"', LayoutSet=p["layouts"], Emit="TRUE",
                  ZeroPowEarlyExit="FALSE", ZeroEntriesKept="FALSE", Temperature="FALSE")
    cfg = lang.mc_cfg(os.path.join(w, "mc.cfg"), consts=consts,
                      invariants=["RenderParses", "ParserRefines", "ValueLayers", "DzPropagates", "EmitInv"])
    t = tlc("MC_Eval", cfg, workers=12, timeout=3000, xmx="12g")
    expect_holds(t, "MC_Eval")
    chk.model("MC_Eval K=%d leaves=%s" % (p["K"], p["leaves"]), t, "RenderParses, ValueLayers, DzPropagates; every rendering emitted")
    vecs = [v for tag, v in t.vecs]
    if not vecs:
        raise ToolError("MC_Eval emitted no vectors")
    # the specification discriminates: pow() as originally pinned must be caught by the model
    cfg2 = lang.mc_cfg(os.path.join(w, "pinned.cfg"), consts=dict(consts, K=1, Emit="FALSE", ZeroPowEarlyExit="TRUE"),
                       invariants=["DzPropagates"])
    t2 = tlc("MC_Eval", cfg2, workers=4)
    if t2.violated != "DzPropagates":
        raise ToolError("ZeroPowEarlyExit = TRUE no longer violates DzPropagates in the model")
    chk.model("MC_Eval ZeroPowEarlyExit=TRUE", t2, "regression: 0 ^ -n = 0 violates DzPropagates (expected)")
    return vecs


def nontrivial(chk, recs):
    for r in recs:
        ops = {a["op"] for a in r["apps"]}
        if len(ops) < 2:
            continue
        for a in r["apps"]:
            o = a["out"]
            if o.get("k") == "val" and (o["d"] != [1] or len(o["n"]) > 5):
                chk.nontrivial(r["text"])
                break


def run_strings(chk, strings, name, label, chunk=1500):
    path = lang.record(strings, name)
    res = lang.validate(chk, path, name, label=label, chunk=chunk)
    chk.evals(res.records)
    lang.judge(chk, res, owns, "the tool's result differs from the exact value of the expression")
    recs = vlib.read_ndjson(path)
    nontrivial(chk, recs)
    return res, recs


def run(chk):
    p = TIERS[chk.tier]
    vlib.build_harness("release")
    vecs = model(chk, p)
    strings = [v["src"] for v in vecs]
    res, recs = run_strings(chk, strings, "c01-replay", "replay of MC_Eval renderings", chunk=4000)
    if res.judged < len(strings):
        raise ToolError("only %d of %d emitted renderings were read as one expression by the reference grammar" % (res.judged, len(strings)))
    for r in recs[:2]:
        chk.sample({"query": r["text"], "result": lang.show(r)})
    rnd = random.Random(chk.seed)
    rs = [lang.gen_numeric(rnd, rnd.randint(2, 8), maxdigits=rnd.choice([3, 6, 12, 30])) for _ in range(p["random"])]
    rs += [lang.gen_numeric(rnd, rnd.randint(2, 5), maxdigits=p["bigdigits"], big=True, budget=8 * p["bigdigits"] + 200) for _ in range(p["big"])]
    rs += [q for q in lang.repo_test_queries() if not any(c.isalpha() for c in q.replace("e", "").replace("E", ""))]
    res2, recs2 = run_strings(chk, rs, "c01-random", "random trees", chunk=600)
    for r in recs2[:3] + recs2[p["random"]:p["random"] + 1]:
        chk.sample({"query": r["text"][:200], "result": str(lang.show(r))[:300]})
    chk.cov["exhaustive"] = False
    chk.cov["rule"] = ("one evaluation = one query string evaluated by the real library and re-evaluated by TLC (Lexer -> Grammar -> Eval in "
                       "F_p for 4 primes, exact where small), including every operator application the hook reported; model renderings: "
                       "every tree with <= %d operators x %s leaves x layouts (exhaustive); random: depth <= 8, literals up to %d digits; "
                       "non-trivial = >= 2 different operators applied and a non-integer or > 64-bit intermediate, distinct by query text"
                       % (p["K"], p["leaves"], p["bigdigits"]))
    chk.cov["judged_by_reference_grammar"] = res.judged + res2.judged
    chk.cov["results_decided"] = res.decided + res2.decided
    chk.assumptions += [
        "values are compared modulo 4 primes near 2^15 (a wrong value passes with probability ~1e-18); exact equality where both sides are small",
        "exponents are compared exactly up to |n| <= 99; larger exponents are outside the explored domain",
    ]


def replay(chk, case):
    vlib.build_harness("release")
    run_strings(chk, [case["text"]], "c01-replayed", "replay")
