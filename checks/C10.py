"""C10 - rounding functions return the mathematically defined integer or decimal.

model  : spec/MC_Round.tla -- floor / ceil / round / round(x, n) as the code computes them (builtin::round's three
         branches on top of truncating division) satisfy their defining inequalities on the grid a/b,
         a in -400..400, b in {1,2,3,4,7,8,10,100,1000}, n in -6..6, and ModArith's oracle functions agree;
         floor-by-truncation (as originally pinned) must be rejected.
replay : the same grid (thinned in the quick tier) through the real `floor(x)`, `ceil(x)`, `round(x)`, `round(x, n)`,
         in a debug-assertion build and a release build; units carried through; wrong argument counts.
traces : boundaries: exact halves and values one unit in the last place next to them at up to 30 digits.
spec/Trace_Lang.tla compares every recorded application and result with Eval.Builtin (exact small rationals).
"""
import os, random
from fractions import Fraction
import vlib, lang
from vlib import tlc, expect_holds, ToolError

LEVEL = "model_checking"
TIERS = {"quick": dict(thin=3, random=3000), "thorough": dict(thin=1, random=60000)}
DENS = [1, 2, 3, 4, 7, 8, 10, 100, 1000]
FNS = {"floor", "ceil", "round"}


def owns(problem, rec):
    if problem[0] == "result":
        return True
    if problem[0] == "app":
        return problem[2] in FNS
    return problem[0] in ("panic", "count")


def lit(fr):
    """a decimal or quotient spelling of a small fraction"""
    fr = Fraction(fr)
    d = fr.denominator
    if d == 1:
        return str(fr.numerator), False
    k = 0
    dd = d
    while dd % 2 == 0:
        dd //= 2
    while dd % 5 == 0:
        dd //= 5
    if dd == 1:
        # terminating decimal
        s = "%f" % 0
        q = abs(fr)
        ip = q.numerator // q.denominator
        rest = q - ip
        digs = ""
        while rest:
            rest *= 10
            digs += str(rest.numerator // rest.denominator)
            rest -= rest.numerator // rest.denominator
        return ("-" if fr < 0 else "") + "%d.%s" % (ip, digs), False
    return "%d / %d" % (fr.numerator, fr.denominator), True


def arg(fr):
    s, quotient = lit(fr)
    return s


def grid(p, seed):
    out = []
    i = 0
    for a in range(-400, 401):
        for b in DENS:
            i += 1
            if (i + seed) % p["thin"]:
                continue
            x = arg(Fraction(a, b))
            out.append("floor(%s)" % x)
            out.append("ceil(%s)" % x)
            out.append("round(%s)" % x)
            n = (a + b + i) % 13 - 6
            out.append("round(%s, %d)" % (x, n))
    return out


def boundaries(rnd, n):
    out = []
    for _ in range(n):
        digits = rnd.choice([1, 2, 3, 6, 12, 30])
        ip = rnd.randint(0, 10 ** rnd.randint(0, digits) - 1) if digits < 30 or rnd.random() < 0.5 else rnd.randint(10 ** 28, 10 ** 30)
        k = rnd.randint(-6, 6)
        # x near a rounding boundary of round(x, k): m + 1/2 units of 10^-k, +- one unit in a later place
        half = Fraction(2 * ip + 1, 2) / Fraction(10) ** k
        eps = Fraction(rnd.choice([0, 0, 1, -1]), 10 ** (abs(k) + rnd.randint(1, 8)))
        x = (half + eps) * rnd.choice([1, -1])
        s, _ = lit(x)
        f = rnd.choice(["round(%s, %d)" % (s, k), "round(%s)" % s, "floor(%s)" % s, "ceil(%s)" % s, "round(%s, %d)" % (s, rnd.randint(-6, 6))])
        if rnd.random() < 0.2:
            u = rnd.choice(["m", "km", "s", "kg", "ft", "N", "J/s"])
            f = f.replace("(" + s, "(" + s + rnd.choice(["", " "]) + u, 1)
        out.append(f)
    for _ in range(n // 6):
        # just below / above an integer, beyond the resolution of a float; integers beyond 2^53
        m = rnd.choice([rnd.randint(-50, 50), rnd.randint(2 ** 53, 2 ** 54), -rnd.randint(2 ** 53, 2 ** 54), rnd.randint(-10 ** 6, 10 ** 6)])
        eps = Fraction(rnd.choice([1, -1]), 10 ** rnd.randint(15, 25))
        s, _ = lit(m + eps)
        out.append(rnd.choice(["floor(%s)", "ceil(%s)", "round(%s)", "floor(%s)", "ceil(%s)"]) % s)
        if rnd.random() < 0.3:
            out.append(rnd.choice(["floor(%d.5)", "ceil(%d.5)", "round(%d.5)"]) % m)
    out += ["floor()", "ceil()", "round()", "floor(1, 2)", "ceil(1.5, 2)", "round(1, 2, 3)", "floor(1.5, 1)", "round(1.5 m, 0)", "floor(-0.5)", "ceil(-0.5)",
            "round(-2.5)", "round(2.5)", "round(-0.125, 2)", "round(1250, -2)", "round(-1250, -2)", "round(1249.5, -2)", "round(4.5, -1)", "floor(-7)", "ceil(-7 m)",
            "round(0.5)", "round(-0.5)", "round(1.25, 1)", "round(-1.25, 1)", "floor(3 km)", "ceil(3.2 km)"]
    return out


def run_strings(chk, strings, name, label, profile, chunk=1500):
    path = lang.record(strings, name, profile=profile)
    res = lang.validate(chk, path, name + "-" + profile, label="%s (%s build)" % (label, profile), chunk=chunk)
    chk.evals(res.records)
    lang.judge(chk, res, owns, "a rounding function does not return the value its definition prescribes (or mishandles the unit / argument count)",
               key_prefix="" if profile == "release" else "[debug-assertion build] ")
    for r in vlib.read_ndjson(path):
        if r["panic"]:
            continue
        for a in r["apps"]:
            if a["op"] in FNS and a["args"] and (a["args"][0]["neg"] or a["args"][0]["d"] != [1]):
                chk.nontrivial(r["text"])
    return res


def run(chk):
    p = TIERS[chk.tier]
    vlib.build_harness("release")
    vlib.build_harness("dbg")
    w = vlib.workdir("c10-cfg")
    base = "INIT Init\nNEXT Next\nCONSTANTS\n  MaxA = 400\n  Dens = {1, 2, 3, 4, 7, 8, 10, 100, 1000}\n  MaxN = 6\n  TruncFloor = %s\n%sCHECK_DEADLOCK FALSE\n"
    invs = "".join("INVARIANT %s\n" % i for i in ("FloorOk", "CeilOk", "RoundOk", "RoundNOk", "QLayer"))
    with open(os.path.join(w, "round.cfg"), "w") as f:
        f.write(base % ("FALSE", invs))
    t = tlc("MC_Round", os.path.join(w, "round.cfg"), workers=8, timeout=1800)
    expect_holds(t, "MC_Round")
    chk.model("MC_Round", t, "FloorOk, CeilOk, RoundOk, RoundNOk, QLayer on the grid")
    with open(os.path.join(w, "pinned.cfg"), "w") as f:
        f.write(base % ("TRUE", "INVARIANT FloorOk\nINVARIANT CeilOk\n"))
    t = tlc("MC_Round", os.path.join(w, "pinned.cfg"), workers=4, timeout=600)
    if t.violated not in ("FloorOk", "CeilOk"):
        raise ToolError("floor by truncation no longer violates FloorOk in the model")
    chk.model("MC_Round TruncFloor=TRUE", t, "regression: floor / ceil by truncation rejected (expected)")
    g = grid(p, chk.seed)
    rnd = random.Random(chk.seed + 10)
    b = boundaries(rnd, p["random"])
    total = 0
    for profile in ("release", "dbg"):
        res = run_strings(chk, g, "c10-grid", "grid", profile)
        res2 = run_strings(chk, b, "c10-bound", "boundaries", profile, chunk=600)
        total += res.decided + res2.decided
    chk.cov["decided_by_spec"] = total
    chk.cov["exhaustive"] = chk.tier == "thorough"
    chk.cov["rule"] = ("grid: x = a/b, a in -400..400, b in {1,2,3,4,7,8,10,100,1000} (every %d-th point in this tier) x floor, ceil, round, round(x, n), "
                       "n in -6..6, each in a release and a debug-assertion build; boundaries: halves and values next to them at up to 30 digits, units, "
                       "wrong argument counts; non-trivial = negative or non-integer argument, distinct by query text" % p["thin"])
    chk.sample({"query": g[len(g) // 2]})
    chk.sample({"query": b[0]})
    chk.assumptions += ["arguments beyond the exact-small-rational range of the specification (|numerator|, denominator > 30000 after scaling) are compared only when "
                        "the specification can decide them; 30-digit boundary cases are decided through their quotient spelling where small"]


def replay(chk, case):
    vlib.build_harness("release")
    vlib.build_harness("dbg")
    key = case.get("text", "")
    run_strings(chk, [key], "c10-replayed", "replay", "release")
    run_strings(chk, [key], "c10-replayed", "replay", "dbg")
