"""What is claimed per property (source for MANIFEST.json, see bin/mkmanifest)."""

CLAIMS = [
    {
        "property_id": "C01",
        "level": "model_checking",
        "technique": "TLA+ reference evaluator (Lexer/Literal/Grammar/Eval/ModArith) model-checked with TLC over every expression tree with <= K operators (MC_Eval.tla); every rendering replayed into the real library and random deep trees with literals of hundreds of digits recorded with the evaluation hook, both validated by TLC against Trace_Lang.tla",
        "text": "MC_Eval.tla builds every tree with <= 2 (quick) / 3 (thorough) operators over + - * / ^ and literal / percentage leaves and checks that the declarative grammar reads each rendering back as that tree, that the F_p layer and the exact-rational layer of the evaluator agree, and that a division by zero (including 0 ^ -n) propagates as an error. Each rendering (quick: 52k strings) is evaluated by the real library; seeded random trees of depth <= 8 with literals up to 120 / 300 digits add the unbounded part. TLC (Trace_Lang.tla) re-evaluates every recorded query and every operator application reported by the hook and compares values modulo four primes (exactly where small), Ok/Err and result counts.",
        "design_ref": "DESIGN.md section 5/C01",
        "note": "Values beyond 30000 are compared in F_p for 4 primes near 2^15 (exact acceptance, ~1e-18 miss probability); exponents beyond |n| = 99 are outside the explored domain.",
    },
    {
        "property_id": "C06",
        "level": "model_checking",
        "technique": "TLA+ transcription of the hand-written parser and the evaluator's tree walk (Parser.tla) model-checked with TLC against the declarative grammar (Grammar.tla) on every token string up to a length; grammar-side enumeration of operator sequences x parenthesisations x blank layouts (MC_Eval.tla); every rendering replayed into the real library, and real tokens / syntax trees / values validated by TLC against Trace_Parse.tla and Trace_Lang.tla",
        "text": "MC_Parser.tla: Lossless, Refines and Sound hold for all token strings <= 6 (arithmetic alphabet), <= 5 (quantities/casts, calls) and <= 4 (all 17 token kinds) in the quick tier (8/7/7/5 thorough); each of the five repaired parser defects, re-created by an as-pinned constant, is rejected. MC_Eval.tla enumerates every operator sequence up to length 4 (5 thorough) over + - * / ^ to with every placement of parentheses and blank layouts and checks that the grammar and the parser transcription read each rendering back as the intended tree. Each rendering is evaluated by the real library: Trace_Parse.tla requires the real token list and the real syntax tree to be the ones the specification builds and evaluates the grammar's reading on the real tree; Trace_Lang.tla compares the value. Random deeper expressions with calls, quantities and casts add breadth.",
        "design_ref": "DESIGN.md section 5/C06",
        "note": "A differing value is attributed to grouping only if every operator application recorded by the hook agrees with the specification; exponents are replayed up to two digits only.",
    },
    {
        "property_id": "C14",
        "level": "model_checking",
        "technique": "TLA+ model of index building (IndexBuild.tla: workers x documents x tie sets) checked with TLC; recorded session histories with visible tie sets validated by TLC against Trace_IndexBuild.tla",
        "text": "IndexBuild.tla shows at design level that the winner among equally scored documents is a function of the data iff one indexing worker is used (TLC: holds for 1 worker over every tie set, counterexample for 3). The implementation is bound by trace validation: a history of sessions (repeated in-memory builds, first on-disk build, reopen, rebuild after a hash change, reopen) x ~1500 phrases is recorded with the lookup hook exposing scores, and TLC accepts it iff every phrase is answered by the same document in every session.",
        "design_ref": "DESIGN.md section 5/C14",
        "note": "tantivy's thread interleaving cannot be controlled from outside, so the implementation side is statistical over repeated builds (the pinned tree failed within two builds); scores are assumed segment-independent (tantivy computes BM25 from searcher-wide statistics).",
    },
    {
        "property_id": "C15",
        "level": "model_checking",
        "technique": "TLA+ spec of the recovery protocol (Store.tla) model-checked with TLC; every TLC-generated fault/start/kill schedule replayed on real directories with crash hooks; recorded store-step traces validated against the spec",
        "text": "Store.tla models the data directory and one process step by step (one action per hook point). TLC proves AnswersAsFresh / MetaWrittenAfterCommit for unbounded faults and kills on the abstract directory states, and liveness of a start. The binding is twofold: every maximal schedule of the bounded model (initial directory x fault x session kind x kill point) is executed against a real private data directory and the directory class and the answers are compared with the model after every item; and the store-step events of all runs are accepted by TLC as behaviours of the same module.",
        "design_ref": "DESIGN.md section 5/C15",
        "note": "Kills are injected at hook points only (not inside tantivy or remove_dir_all; a partial removal is emulated by the harness). tantivy's commit is assumed atomic. Directory corruption inside tantivy's own files is out of scope.",
    },
]

_PENDING = "check not built yet in this session (the specification module exists only as a design prototype); see DESIGN.md section 9"
NOT_APPLICABLE = [{"property_id": "C%02d" % i, "reason": _PENDING} for i in range(1, 20) if "C%02d" % i not in {c["property_id"] for c in CLAIMS}]
