"""What is claimed per property (source for MANIFEST.json, see bin/mkmanifest)."""

CLAIMS = [
    {
        "property_id": "C01",
        "level": "model_checking",
        "technique": "TLA+ reference evaluator (Lexer/Literal/Grammar/Eval/ModArith) model-checked with TLC over every expression tree with <= K operators (MC_Eval.tla); every rendering replayed into the real library and random deep trees with literals of hundreds of digits recorded with the evaluation hook, both validated by TLC against Trace_Lang.tla",
        "text": "MC_Eval.tla builds every tree with <= 2 (quick) / 3 (thorough) operators over + - * / ^ and literal / percentage leaves and checks that the declarative grammar reads each rendering back as that tree, that the F_p layer and the exact-rational layer of the evaluator agree, and that a division by zero (including 0 ^ -n) propagates as an error. Each rendering (quick: 52k strings) is evaluated by the real library; seeded random trees of depth <= 8 with literals up to 120 / 300 digits add the unbounded part. TLC (Trace_Lang.tla) re-evaluates every recorded query and every operator application reported by the hook and compares values modulo four primes (exactly where small), Ok/Err and result counts.",
        "design_ref": "DESIGN.md section 5/C01",
        "note": "Values beyond 30000 are compared in F_p for 4 primes near 2^15 (exact acceptance, ~1e-18 miss probability); exponents beyond |n| = 99 are outside the explored domain.",
    },
    {
        "property_id": "C06",
        "level": "model_checking",
        "technique": "TLA+ transcription of the hand-written parser and the evaluator's tree walk (Parser.tla) model-checked with TLC against the declarative grammar (Grammar.tla) on every token string up to a length; grammar-side enumeration of operator sequences x parenthesisations x blank layouts (MC_Eval.tla); every rendering replayed into the real library, and real tokens / syntax trees / values validated by TLC against Trace_Parse.tla and Trace_Lang.tla",
        "text": "MC_Parser.tla: Lossless, Refines and Sound hold for all token strings <= 6 (arithmetic alphabet), <= 5 (quantities/casts, calls) and <= 4 (all 17 token kinds) in the quick tier (8/7/7/5 thorough); each of the five repaired parser defects, re-created by an as-pinned constant, is rejected. MC_Eval.tla enumerates every operator sequence up to length 4 (5 thorough) over + - * / ^ to with every placement of parentheses and blank layouts and checks that the grammar and the parser transcription read each rendering back as the intended tree. Each rendering is evaluated by the real library: Trace_Parse.tla requires the real token list and the real syntax tree to be the ones the specification builds and evaluates the grammar's reading on the real tree; Trace_Lang.tla compares the value. Random deeper expressions with calls, quantities and casts add breadth.",
        "design_ref": "DESIGN.md section 5/C06",
        "note": "A differing value is attributed to grouping only if every operator application recorded by the hook agrees with the specification; exponents are replayed up to two digits only.",
    },
    {
        "property_id": "C07",
        "level": "model_checking",
        "technique": "TLA+ byte-level transcription of the number reader (Literal.FromStr) model-checked with TLC against the declarative denotation on every string <= 8 over digits/sign/point/exponent; every well-formed literal replayed through three entry points and validated by TLC against Trace_Literal.tla",
        "text": "MC_Literal.tla grows every string over {0 1 9 + - . e E} up to length 8 (9 thorough) through viable prefixes and checks that the transcribed reader equals Denote on every well-formed literal and that the lexer takes it as one NUMBER token. The well-formed literals (exponent <= 3 digits) are given to str::parse::<Rational>, evaluated as a query and as a percentage; Trace_Literal.tla compares each result with Denote(src) in F_p. Random literals up to 600 digits (leading zeros, bare points, signs, every digit in every role) cover length independence.",
        "design_ref": "DESIGN.md section 5/C07",
        "note": "quick tier replays all literals up to 7 characters and every 5th of length 8; exponents of more than three digits are checked in the model only.",
    },
    {
        "property_id": "C08",
        "level": "model_checking",
        "technique": "TLA+ transcription of the three formatter paths (Display.tla) model-checked with TLC for faithfulness on a grid of values x limits x thresholds; a slice of the grid and random values rendered by Rational::display and the printed characters read back and validated by TLC against Trace_Display.tla",
        "text": "Display.tla models values as n/d * 10^k digit streams, transcribes format_big / format_whole / the leading-zero loop character by character, and defines Faithful by reading the printed text back. MC_Display.tla checks Faithful on the grid (quick 720k cases, thorough 18.7M) and that each of the three repaired defects (as-pinned constants) is rejected. The real formatter's output for a slice of the grid and for random n/d*10^k (|k| <= 40, limits 1..20, thresholds 1..15) is read back by TLC: unfaithful text is a violation, a faithful but different layout is drift.",
        "design_ref": "DESIGN.md section 5/C08",
        "note": "show_continuation is left at its default.",
    },
    {
        "property_id": "C12",
        "level": "model_checking",
        "technique": "TLA+ lexer machine (Lexer.tla) model-checked with TLC on an unbounded nondeterministic character stream (finite state) and on all concrete strings <= N; parser transcription (Parser.tla) checked lossless on all token strings; real token lists and syntax trees validated by TLC against Trace_Parse.tla; native exhaustive sweep over the 40-symbol alphabet as a compiled monitor of the same invariants",
        "text": "MC_LexerStream.tla proves non-empty tokens, progress and absence of deadlock for inputs of every length at character-class level; MC_Lexer.tla checks Tiles and ParserLossless on every string <= 4 (5 thorough) over 22 class representatives; MC_Parser.tla checks Lossless over all 17 token kinds. Binding: the strings of the model, one representative per distinct token-kind shape of the native sweep (all strings <= 5 / 6 over 40 symbols: 105M / 4.2G strings) and random strings up to 200 characters are lexed and parsed by the real code; Trace_Parse.tla requires real tokens to tile the input on character boundaries, the real tree's leaves to be exactly those tokens, and compares both with the specification's own token list and tree (differences are drift).",
        "design_ref": "DESIGN.md section 5/C12",
        "note": "termination of the real code is observed with a watchdog, not proved; the native sweep is a monitor whose verdicts are confirmed by TLC.",
    },
    {
        "property_id": "C14",
        "level": "model_checking",
        "technique": "TLA+ model of index building (IndexBuild.tla: workers x documents x tie sets) checked with TLC; recorded session histories with visible tie sets validated by TLC against Trace_IndexBuild.tla",
        "text": "IndexBuild.tla shows at design level that the winner among equally scored documents is a function of the data iff one indexing worker is used (TLC: holds for 1 worker over every tie set, counterexample for 3). The implementation is bound by trace validation: a history of sessions (repeated in-memory builds, first on-disk build, reopen, rebuild after a hash change, reopen) x ~1500 phrases is recorded with the lookup hook exposing scores, and TLC accepts it iff every phrase is answered by the same document in every session.",
        "design_ref": "DESIGN.md section 5/C14",
        "note": "tantivy's thread interleaving cannot be controlled from outside, so the implementation side is statistical over repeated builds (the pinned tree failed within two builds); scores are assumed segment-independent (tantivy computes BM25 from searcher-wide statistics).",
    },
    {
        "property_id": "C15",
        "level": "model_checking",
        "technique": "TLA+ spec of the recovery protocol (Store.tla) model-checked with TLC; every TLC-generated fault/start/kill schedule replayed on real directories with crash hooks; recorded store-step traces validated against the spec",
        "text": "Store.tla models the data directory and one process step by step (one action per hook point). TLC proves AnswersAsFresh / MetaWrittenAfterCommit for unbounded faults and kills on the abstract directory states, and liveness of a start. The binding is twofold: every maximal schedule of the bounded model (initial directory x fault x session kind x kill point) is executed against a real private data directory and the directory class and the answers are compared with the model after every item; and the store-step events of all runs are accepted by TLC as behaviours of the same module.",
        "design_ref": "DESIGN.md section 5/C15",
        "note": "Kills are injected at hook points only (not inside tantivy or remove_dir_all; a partial removal is emulated by the harness). tantivy's commit is assumed atomic. Directory corruption inside tantivy's own files is out of scope.",
    },
]

_PENDING = "check not built yet in this session (the specification module exists only as a design prototype); see DESIGN.md section 9"
NOT_APPLICABLE = [{"property_id": "C%02d" % i, "reason": _PENDING} for i in range(1, 20) if "C%02d" % i not in {c["property_id"] for c in CLAIMS}]
