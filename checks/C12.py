"""C12 - lexing and parsing are lossless over the input text.

model  : spec/MC_LexerStream.tla -- Lexer.tla on an unbounded nondeterministic character stream (finite
         state): every token non-empty, progress, no deadlock, for inputs of EVERY length.
         spec/MC_Lexer.tla -- every concrete string <= N over 22 class representatives: Tiles, ParserLossless.
         spec/MC_Parser.tla -- every token string <= N over all 17 token kinds: Lossless.
replay : every string <= EmitLen of MC_Lexer is run through the real lexer and parser; spec/Trace_Parse.tla
         compares token list and tree with the specification's and checks tiling / leaves on the real ones.
sweep  : the property's own quantifier (all strings <= 5 / 6 over a 40-symbol alphabet) is run natively as a
         compiled monitor of the same invariants; every flagged string and one representative per distinct
         token-kind shape go through TLC.
traces : random strings up to 200 characters over a wider alphabet.
"""
import json, os, random
import vlib, ugen, lang
from vlib import tlc, expect_holds, ToolError

LEVEL = "model_checking"
TIERS = {
    "quick": dict(N=4, emit=3, allkinds=4, sweep=5, shapes=6000, random=3000),
    "thorough": dict(N=5, emit=4, allkinds=5, sweep=6, shapes=40000, random=60000),
}
MINE = {"tiling", "leaves", "lexer-panic", "parser-failed"}
WIDE = list("0123456789.eE+-*/^%(){}, \t\n\r") + list("abcdtomkszZ'°éü日本😀μΩ_\"=#~|\\<>[]!?:;&$@`") + [" ", " ", " ", "　", "\u000b", "\u000c", "\u0085"]


def model(chk, p):
    t = tlc("MC_LexerStream", "MC_LexerStream.cfg", workers=4)
    expect_holds(t, "MC_LexerStream")
    chk.model("MC_LexerStream", t, "unbounded input, class level: NonEmpty, Progress, no deadlock")
    w = vlib.workdir("c12-cfg")
    cfg = lang.mc_cfg(os.path.join(w, "lexer.cfg"), consts=dict(lang.PARSER_REPAIRED, N=p["N"], EmitLen=p["emit"], Emit="TRUE"), fac=None,
                      invariants=["TilesInv", "KindsInv", "ParserLossless", "EmitInv"])
    t = tlc("MC_Lexer", cfg, workers=12, timeout=3000, xmx="12g")
    expect_holds(t, "MC_Lexer")
    chk.model("MC_Lexer N=%d" % p["N"], t, "every string over 22 class representatives: Tiles, ParserLossless")
    vecs = [v for tag, v in t.vecs]
    cfg = lang.mc_cfg(os.path.join(w, "parser.cfg"), consts=dict(lang.PARSER_REPAIRED, N=p["allkinds"]), fac=None,
                      subst=["Alphabet <- All"], invariants=["LosslessInv"])
    t = tlc("MC_Parser", cfg, workers=12, timeout=3000, xmx="12g")
    expect_holds(t, "MC_Parser All")
    chk.model("MC_Parser All N=%d" % p["allkinds"], t, "every token string over all 17 kinds: Lossless")
    return vecs


NAMES = {"EACUTE": "é", "EMSP": " ", "DEG": "°", "NBSP": " ", "MU": "μ", "CJK": "日", "EMOJI": "😀"}


def judge(chk, resp, label):
    for m in resp.mismatches:
        rec = m["rec"] or {}
        mine = [x for x in m["problems"] if x in MINE]
        if mine:
            chk.violation("%r: %s" % (rec.get("text"), ",".join(mine)),
                          {"kind": "string", "text": rec.get("text"), "problems": m["problems"], "tokens": rec.get("toks"),
                           "what": "the real lexer / parser does not attribute every byte of this input to exactly one token and leaf"})
        other = [x for x in m["problems"] if x not in MINE]
        if other:
            chk.drift("%r (%s): %s" % (rec.get("text"), label, ",".join(other)))


def run_strings(chk, strings, name, label, chunk=2500):
    path = lang.record(strings, name, tokens=True)
    resp = lang.validate(chk, path, name, module="Trace_Parse", label=label, chunk=chunk)
    chk.evals(resp.records)
    judge(chk, resp, label)
    recs = vlib.read_ndjson(path)
    for r in recs:
        if r.get("toks_ok") and len(r["toks"]) >= 2 and (any(ord(c) > 127 for c in r["text"]) or len({t[0] for t in r["toks"]}) >= 2):
            chk.nontrivial(r["text"])
    return resp, recs


def run(chk):
    p = TIERS[chk.tier]
    vlib.build_harness("release")
    vecs = model(chk, p)
    strings = ["".join(NAMES.get(c, c) for c in v["src"]) for v in vecs]
    resp, recs = run_strings(chk, strings, "c12-replay", "replay of MC_Lexer strings")
    for r in recs[1000:1003]:
        chk.sample({"input": r["text"], "tokens": r["toks"]})
    # the property's own quantifier, natively, as a monitor of the same invariants
    w = vlib.workdir("c12-sweep")
    out = os.path.join(w, "sweep.ndjson")
    pr = vlib.conform(["c12-sweep", "--len", p["sweep"], "--out", out, "--max-shapes", p["shapes"], "--threads", 14], timeout=7200)
    info = json.loads(pr.stdout.strip().splitlines()[-1])
    rows = vlib.read_ndjson(out)
    flagged = [r for r in rows if r["kind"] in ("flagged", "stuck")]
    shapes = [r["text"] for r in rows if r["kind"] == "shape"]
    for r in flagged:
        if r["kind"] == "stuck":
            chk.violation("%r: does not terminate" % r["text"], {"kind": "string", "text": r["text"], "what": r["what"]})
    chk.cov["sweep"] = info
    chk.evals(info["strings"])
    run_strings(chk, [r["text"] for r in flagged if r["kind"] == "flagged"] + shapes, "c12-shapes", "flagged strings and shape representatives of the sweep")
    if info["flagged"] and not chk.violations:
        raise ToolError("the native monitor flagged %d strings that the specification accepts: monitor and specification disagree" % info["flagged"])
    rnd = random.Random(chk.seed + 12)
    rs = []
    for _ in range(p["random"]):
        n = rnd.randint(1, 200) if rnd.random() < 0.3 else rnd.randint(1, 30)
        rs.append("".join(rnd.choice(WIDE) for _ in range(n)))
    # long homogeneous runs and deep nesting: sizes that no length-6 sweep reaches
    for n in (7, 33, 64, 65, 66, 100, 129):
        rs += ["\ufeff" + "1" * n, "(" * n, "(" * n + "1" + ")" * n, "f(" * n + "1" + ")" * n, ")" * n, "{" * n, "1" + " + 1" * n, "1" + "^2" * min(n, 40), "-" * n, "." * n,
               "1" * n, " " * n, "a " * n, "é" * n, "(1 + " * n + "1" + ")" * n, "1e" * n, "{a " * n, "round(" * n + "1.5" + ", 0)" * n,
               "1 to m " * min(n, 100), "%" * n, "," * n, "((" * (n // 2) + ")" * n]
    # well-formed expressions: random characters almost never form the operator chains, calls and unit expressions on
    # which the parser's precedence stack, checkpoints and unit loop do their work
    ug = ugen.UnitGen(ugen.Vocab(), rnd, maxpow=3)
    for _ in range(p["random"] // 3):
        c = rnd.random()
        if c < 0.5:
            rs.append(lang.gen_numeric(rnd, rnd.randint(2, 5), maxdigits=3, budget=200, maxops=12))
        elif c < 0.8:
            ops = [rnd.choice(["+", "-", "*", "/", "^", "**", " to ", " + ", " * ", " ^ "]) for _ in range(rnd.randint(3, 8))]
            # at most four powers in one chain: (((x^12)^12)^12)^12 is still computed in an instant, two levels more are not
            seen = 0
            for k, o in enumerate(ops):
                if "^" in o or "**" in o:
                    seen += 1
                    if seen > 4:
                        ops[k] = "*"
            atoms = [rnd.choice(["a", "b", "1", "2.5", "x y", "(1)", "f(2)", "3m", "1e1", "{a b}", "c", "%d" % rnd.randint(0, 12)]) for _ in range(len(ops) + 1)]
            e = atoms[0] + "".join(o + a for o, a in zip(ops, atoms[1:]))
            rs.append(rnd.choice([e, "(" + e + ")", "f(" + e + ", " + e + ")", e + " " + e]))
        else:
            q, _ = ugen.quantity(rnd, ug)
            q2, _ = ugen.quantity(rnd, ug)
            rs.append("%s %s %s to %s" % (q, rnd.choice("+-*/"), q2, ug.spell(ug.expr())))
    rs += ["a+b^c*d+e", "1\x00+ 2", "\x00", "1 + 2\x00", "(a+b^c*d+e)", "f(a+b^c*d+e, 2)",
           "\ufeff1 + 2", "\ufeff", "\ufeff ", "1\ufeff2", "2e+", "1E-x", "7e- 3", "-e+ 1", ".5e+", " (", " 1 to", "\t{", " f(", " 2 * (", "\u00a0(("]
    rnd.shuffle(rs)      # spread the expensive deep strings over the parallel validators
    run_strings(chk, rs, "c12-random", "random strings", chunk=1000)
    chk.cov["exhaustive"] = True
    chk.cov["rule"] = ("exhaustive: every string of length <= %d over the 40-symbol alphabet %s (native monitor of Lexer.Tiles / Parser.Lossless, "
                       "%d strings), every string <= %d over 22 class representatives in the TLC model, of which those <= %d are replayed; "
                       "TLC validates real tokens and trees of %d shape representatives and %d random strings up to 200 characters; "
                       "non-trivial = >= 2 tokens and (non-ASCII or >= 2 token kinds), distinct by input"
                       % (p["sweep"], "".join(sorted(set("0 1 9 . e E + - * / ^ % ( ) { } , a t o m k Z ' _ \" = # x".split()))) + " + blanks, tab, newline, ° é 日 😀 NBSP EMSP μ Ω",
                          info["strings"], p["N"], p["emit"], len(shapes), p["random"]))
    chk.assumptions += ["the native sweep is a monitor compiled from the specification's invariants; its verdicts are confirmed by TLC before being reported",
                        "termination of the real lexer/parser is observed with a 60 s watchdog per worker, not proved"]


def replay(chk, case):
    vlib.build_harness("release")
    run_strings(chk, [case["text"]], "c12-replayed", "replay")
