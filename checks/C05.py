"""C05 - every unit word denotes the standard definition of a unit and prefix.

model  : spec/MC_UnitWords.tla -- over the whole vocabulary (every documented name alone and behind every prefix
         spelling, ~9 800 words; thorough: also all concatenations of two short names) the longest-match procedure
         of the generated unit parser (UnitWords.ParseWord) only ever delivers one of the word's readings
         (Readings, declarative), and every documented name alone gets its own meaning.
replay : every one of those words is typed as `1 <word>`; spec/Trace_Words.tla requires an accepted word to be
         read as one of its readings and every documented name to be accepted on its own.
defs   : for every unit, `1 <name> to <SI base units>` with the base dimensions of the standards table
         (vocab/units.py: SI brochure, yard-and-pound agreement, NIST HB 44 / imperial series) must be accepted
         and give one of the standard values of that name.
traces : random unit expressions (juxtaposition, `*`, blanks, several `/`, `^n`): spec/Trace_Lang.tla compares the
         compound the tool builds with UnitWords.UnitExpr.
Known findings (known_findings.json): pint, dalton (wrong constants pinned by the repository's own tests) and
words in a backtracking situation of the generated lexer (a defect of the lexer generator's output).
"""
import json, os, random, sys
from fractions import Fraction
import vlib, lang, ugen
from vlib import tlc, expect_holds, ToolError

LEVEL = "model_checking"
# context: share of the (word x target x form) combinations asked (0 = all)
TIERS = {"quick": dict(two="FALSE", exprs=2000, context=0), "thorough": dict(two="TRUE", exprs=50000, context=0)}
NAMES = {"DEG": "°", "OMEGA": "Ω", "MU": "μ"}
EXPR_MINE = {"unit", "dims", "value", "error-expected", "unexpected-error", "zero-power-in-unit"}


def typable(text):
    return all((c.isascii() and (c.isalnum() or c == "'")) or c == "°" for c in text) and text != "to" and not text[0].isdigit()


def model(chk, p):
    w = vlib.workdir("c05-cfg")
    cfg = lang.mc_cfg(os.path.join(w, "words.cfg"), consts=dict(Two=p["two"], Emit="TRUE", ZeroEntriesKept="FALSE"),
                      invariants=["Sound", "NamesAlone", "EmitInv"])
    t = tlc("MC_UnitWords", cfg, workers=12, timeout=6000, xmx="12g")
    expect_holds(t, "MC_UnitWords")
    chk.model("MC_UnitWords Two=%s" % p["two"], t, "Sound, NamesAlone over the whole vocabulary")
    return [v for tag, v in t.vecs]


def words(chk, vecs):
    rows, skipped = [], 0
    for v in vecs:
        text = "".join(NAMES.get(c, c) for c in v["w"])
        if not typable(text):
            skipped += 1
            continue
        rows.append((v, text))
    path = lang.record(["1 " + t for _, t in rows], "c05-words")
    recs = vlib.read_ndjson(path)
    out = []
    for i, ((v, text), r) in enumerate(zip(rows, recs)):
        ok = len(r["res"]) == 1 and r["res"][0]["k"] == "val" and not r["panic"]
        out.append({"id": i + 1, "kind": v["kind"], "text": text, "w": v["w"], "u": v["u"], "ok": ok,
                    "units": r["res"][0]["u"] if ok else [], "err": "" if ok else (r["res"][0].get("msg") if r["res"] else r["panic"] or "no result")})
    chk.cov["words_not_typable"] = skipped
    return out


def defs(chk, v):
    """one definitional query per unit: the standards table's dimensions, any documented typable name"""
    rnd = random.Random(5)
    rows = []
    for k, u in v.units.items():
        if k in v.offset:
            continue
        names = [n for n in u["names"] if typable(n)]
        if not names:
            continue
        for n in names[:2]:
            for pw in (1, -1, 2):
                base = " ".join("%s^%d" % (b, u["dims"][b] * pw) for b in ugen.BASES if u["dims"].get(b, 0))
                rows.append((k, n, u.get("bias", 0) * pw, "1 %s to %s" % (n if pw == 1 else "%s^%d" % (n, pw), base), pw))
    path = lang.record([q for _, _, _, q, _ in rows], "c05-defs")
    out, observed = [], {}
    for i, ((k, n, bias, q, pw), r) in enumerate(zip(rows, vlib.read_ndjson(path))):
        ok = len(r["res"]) == 1 and r["res"][0]["k"] == "val" and not r["res"][0]["neg"]
        if ok:
            x = r["res"][0]
            val = Fraction(lang.limbs_to_int(x["n"]), lang.limbs_to_int(x["d"])) / Fraction(10) ** bias
            if pw == 1:
                observed[k] = val
            nn, dd = vlib.digits(str(val.numerator)), vlib.digits(str(val.denominator))
        else:
            nn, dd = [0], [1]
        out.append({"id": i + 1, "kind": "def", "key": k, "text": q, "ok": ok, "n": nn, "d": dd, "pw": pw,
                    "shown": str(val) if ok else (r["res"][0].get("msg") if r["res"] else "no result")})
    return out, observed


def accepted_roundings(observed):
    """units whose standard value has no exact decimal: the tool's value is accepted iff it is a correct rounding of
    the defining expression at the precision it is given with (decided from the standards table, vocab/units.py)"""
    sys.path.insert(0, os.path.join(vlib.ROOT, "vocab"))
    import units as V
    acc = {}
    for k, e in V.DERIVED.items():
        extra = e[4] if len(e) > 4 else []
        if any(a[0] == "round" for a in extra) and k in observed:
            if V.sig_digits_round_ok(observed[k], e[2], 3):
                acc[k] = {"n": vlib.digits(str(observed[k].numerator)), "d": vlib.digits(str(observed[k].denominator))}
    return acc


def gen_exprs(rnd, v, n):
    ug = ugen.UnitGen(v, rnd, maxpow=3)
    out = []
    for _ in range(n):
        terms = ug.expr(rnd.choice([1, 2, 2, 3, 4]))
        # free-form spelling: every term with its own sign handling, several slashes
        parts, cur, s = [], 1, ""
        for i, (w, k, p) in enumerate(terms):
            if i > 0:
                sep = rnd.choice(["*", " ", "/", "/", "*", " "])
                if sep == "/":
                    cur = -cur
                s += sep
            shown = p * cur          # the power to write so that the meaning is p... write |anything|: meaning is decided by the spec
            s += w if p == 1 else w + rnd.choice(["^", "**"]) + str(p)
        if rnd.random() < 0.12:
            # name one of the units a second time, under another prefix (the tool may refuse; if it accepts the factors multiply)
            w, k, p = rnd.choice(terms)
            w2, _ = v.word_for(rnd, k)
            if w2:
                s += rnd.choice(["/", "*", " "]) + w2
        out.append("1 " + s)
        if rnd.random() < 0.3:
            out.append("%s%s%s" % (ugen.magnitude(rnd, True), rnd.choice(["", " "]), s))
    return out


def run(chk):
    p = TIERS[chk.tier]
    vlib.build_harness("release")
    v = ugen.Vocab()
    vecs = model(chk, p)
    wrows = words(chk, vecs)
    drows, observed = defs(chk, v)
    acc = accepted_roundings(observed)
    w = vlib.workdir("c05-trace")
    accp = os.path.join(w, "accept.json")
    with open(accp, "w") as f:
        json.dump(acc, f)
    chk.cov["accepted_roundings"] = sorted(acc)
    allrows = wrows + [dict(d, id=d["id"] + len(wrows)) for d in drows]
    path = os.path.join(w, "words.ndjson")
    vlib.write_ndjson(path, allrows)
    res = lang.validate(chk, path, "c05-words-val", module="Trace_Words", label="words and definitions", chunk=900, env={"ACCEPT": accp})
    chk.evals(res.records)
    accepted = sum(1 for r in wrows if r["ok"])
    chk.cov["words"] = len(wrows)
    chk.cov["words_accepted_by_tool"] = accepted
    chk.cov["definitions"] = len(drows)
    for m in res.mismatches:
        rec = m["rec"] or {}
        for pr in m["problems"]:
            if pr == "acceptance":
                chk.drift("word %r: the tool %s it, the longest-match procedure of the specification does not" % (rec.get("text"), "accepts" if rec.get("ok") else "rejects"))
            elif pr == "misread":
                key = ("backtracking word=%s" if m["extra"].get("bt") else "word=%s") % rec.get("text")
                chk.violation(key + " read as %s" % json.dumps(rec.get("units")), {"kind": "word", "text": rec.get("text"), "tool_units": rec.get("units"),
                              "what": "the tool accepts the word with a meaning that is none of its readings as prefix + unit name(s)"})
            elif pr == "name-rejected":
                chk.violation("name=%s not accepted alone as %s" % (rec.get("text"), rec.get("u")), {"kind": "word", "text": rec.get("text"), "tool": rec.get("units") or rec.get("err"),
                              "what": "a documented unit name typed on its own is not accepted with its own meaning"})
            elif pr in ("dims", "scale"):
                chk.violation("def unit=%s via %s: %s (%s)" % (rec.get("key"), rec.get("text"), pr, rec.get("shown")),
                              {"kind": "definition", "text": rec.get("text"), "unit": rec.get("key"), "tool": rec.get("shown"),
                               "what": "the unit does not have the %s the standards give it" % ("base dimensions" if pr == "dims" else "scale")})
    for r in wrows:
        if r["ok"] and r["kind"] != "name":
            chk.nontrivial(r["text"])
    # unit expressions
    rnd = random.Random(chk.seed + 5)
    ex = gen_exprs(rnd, v, p["exprs"]) + ugen.gen_context(rnd, v, p["context"]) + ["1 km/m", "1 mg/kg", "1 ms/s", "1 m m", "1 km*m", "1 kWh/Wh", "1 m/km", "2 cm*mm", "1 MB/kB", "1 m/s/s", "1 m/s/kg", "1 kg m^2/s^2", "1 m s^-1", "1 m*s**-2", "1 N m", "1 m/s^2 kg", "1 kg/m s", "5 km/h", "1 m^2/s^2/K"]
    path = lang.record(ex, "c05-exprs")
    # per-unit factors as the tool exhibits them: a wrong *value* here can only come from how the expression is put together
    obs_path, _ = lang.observed_scales("c05-observed")
    res2 = lang.validate(chk, path, "c05-exprs", label="unit expressions", chunk=600, fac="ObsFacR", observed=obs_path)
    chk.evals(res2.records)

    def owns(problem, rec):
        if problem[0] == "result":
            return problem[2] in EXPR_MINE
        return problem[0] in ("panic", "count")
    lang.judge(chk, res2, owns, "the compound the tool builds from a unit expression is not the one juxtaposition / `*` / blanks (multiply), `/` (inverts "
               "everything after it) and `^n` (applies to the unit it follows) prescribe", drift_other=False)
    chk.cov["expressions_decided"] = res2.decided
    for r in wrows[100:102] + wrows[5000:5002]:
        chk.sample({"word": r["text"], "accepted": r["ok"], "read_as": r["units"]})
    chk.sample({"definition": drows[10]["text"], "tool": drows[10]["shown"]})
    chk.cov["exhaustive"] = True
    chk.cov["rule"] = ("exhaustive over the vocabulary: every documented name alone and behind every prefix spelling (%d typable words%s), each typed as `1 <word>` "
                       "and compared with its readings; one definitional query per unit name (two names per unit) against the standards table; %d unit "
                       "expressions; non-trivial = an accepted word that is not a bare name, distinct by word"
                       % (len(wrows), ", plus all two-name words of short names" if p["two"] == "TRUE" else "", len(ex)))
    chk.assumptions += ["the standards table vocab/units.py is a hand transcription (SI brochure 9th ed., 1959 yard-and-pound agreement, NIST HB 44 App. C, imperial series) "
                        "and refuses to generate UnitTable.tla unless it satisfies the systems' defining relations",
                        "a name with several standard meanings (ton, t, cable, fathom, hundredweight) may have any of them",
                        "words with Ω or μ cannot be typed in the query language and are out of domain"]


def replay(chk, case):
    vlib.build_harness("release")
    text = case["text"]
    q = text if case.get("kind") != "word" else "1 " + text
    path = lang.record([q], "c05-replayed")
    print(json.dumps(lang.show(vlib.read_ndjson(path)[0]), ensure_ascii=False))
    # the full verdict needs the vocabulary context: re-run the word / definition part on this single item
    v = ugen.Vocab()
    if case.get("kind") == "definition":
        drows, observed = defs(chk, v)
        drows = [d for d in drows if d["text"] == text]
        rows = drows
    elif case.get("kind") == "word":
        rows = words(chk, [{"w": [ {"°": "DEG"}.get(c, c) for c in text], "kind": "prefixed", "u": ""}])
    else:
        res2 = lang.validate(chk, path, "c05-replayed", label="replay")
        lang.judge(chk, res2, lambda pr, rec: pr[0] == "result" and pr[2] in EXPR_MINE, "unit expression")
        return
    w = vlib.workdir("c05-replay-trace")
    p = os.path.join(w, "rows.ndjson")
    vlib.write_ndjson(p, [dict(r, id=i + 1) for i, r in enumerate(rows)])
    res = lang.validate(chk, p, "c05-replayed-val", module="Trace_Words", label="replay")
    for m in res.mismatches:
        if any(x in ("misread", "name-rejected", "dims", "scale") for x in m["problems"]):
            chk.violation("replayed %s: %s" % (text, m["problems"]), case)
