"""C18 - describing a query does not change its answer and reports exactly the facts used.

model  : spec/Session.tla -- a database is read only once ready: every evaluation of a query (descriptions on or off, any
         position in any order) returns what the query returns in isolation, and the descriptions are exactly the looked-up
         phrases with the documents found.  Two deliberate deviations (a lookup cache under a case-folded key; a per-query
         memo that skips the description) must be rejected.
traces : expressions mixing literals and fact phrases are evaluated on one shared database with descriptions off and on, in
         the stored and in shuffled order, and a sample of them each on a database of its own.  spec/Trace_Describe.tla keeps
         the first answer per query and requires every later evaluation to agree, the described phrases to be exactly the
         phrases the documented grammar makes the query look up, and each description to carry the constant the lookup hook
         saw being found.
"""
import os, random
import vlib, lang, factlib
from vlib import tlc, expect_holds, ToolError

LEVEL = "model_checking"
TIERS = {"quick": dict(queries=1500, fresh=60, evals=3), "thorough": dict(queries=6000, fresh=200, evals=4)}
MINE = {"answer-differs", "descriptions-when-off", "descriptions-missing", "wrong-constant", "descriptions-differ", "panic"}


def model(chk, p):
    w = vlib.workdir("c18-cfg")

    def cfg(name, cache, memo):
        path = os.path.join(w, name)
        with open(path, "w") as f:
            f.write("SPECIFICATION Spec\nCONSTANTS\n  LookupCache = %s\n  MemoSkips = %s\n  MaxEvals = %d\nINVARIANT SameAnswer\nINVARIANT DescribeExact\nCHECK_DEADLOCK FALSE\n"
                    % (cache, memo, p["evals"]))
        return path
    t = tlc("Session", cfg("session.cfg", "FALSE", "FALSE"), workers=8, timeout=1800)
    expect_holds(t, "Session")
    chk.model("Session MaxEvals=%d" % p["evals"], t, "SameAnswer, DescribeExact over all orders of evaluations")
    for name, cache, memo, inv in (("cache.cfg", "TRUE", "FALSE", "SameAnswer"), ("memo.cfg", "FALSE", "TRUE", "DescribeExact")):
        t = tlc("Session", cfg(name, cache, memo), workers=4, timeout=600)
        if t.violated != inv:
            raise ToolError("the deliberate deviation %s no longer violates %s in the model" % (name, inv))
        chk.model("Session %s" % name, t, "regression: deviation rejected (expected)")


CAST_TARGETS = ["m", "km", "kg", "g", "s", "h", "W", "J", "ft", "lb", "m/s", "km/h", "m^2", "km^3", "kg/m^3", "au", "ly", "K", "nosuchunit"]


def generate(rnd, phrases, n):
    units = ["m", "km", "s", "kg", "W", "J", "h"]
    out = []

    def operand():
        c = rnd.random()
        if c < 0.6:
            return rnd.choice(phrases)
        if c < 0.8:
            return "%d" % rnd.randint(1, 99)
        return "%d %s" % (rnd.randint(1, 99), rnd.choice(units))
    for _ in range(n):
        k = rnd.choice([1, 1, 2, 2, 2, 3, 4])
        s = operand()
        same = rnd.choice(phrases)
        for _ in range(k - 1):
            o = operand() if rnd.random() < 0.8 else same
            op = rnd.choice([" * ", " / ", " * ", " / ", " + ", " - "])
            if rnd.random() < 0.3:
                o = "(" + o + ")"
            s = s + op + o
        if rnd.random() < 0.1:
            s = same + " / " + same            # the same phrase twice in one query
        if rnd.random() < 0.08:
            # phrases that differ only in the case of a word
            words = same.split()
            i = rnd.randrange(len(words))
            words[i] = words[i].upper()
            s = " ".join(words)
        if rnd.random() < 0.1:
            s = "round(%s, 2)" % s
        if rnd.random() < 0.06:
            s = s + rnd.choice([" / 0", " + 1 s + 1 m", " to nosuchunit"])        # fails after its lookups succeeded
        if rnd.random() < 0.06 and " " in same:
            s = same.replace(" ", rnd.choice(["  ", "\t", "   "]), 1)               # several blanks inside a phrase
        # every syntactic position a phrase can stand in: under a cast (compatible target or not), under a cast that is an
        # operand itself, under a power, as a function argument, in braces, behind a sign-like operator
        c = rnd.random()
        if c < 0.14:
            s = "%s to %s" % (s, rnd.choice(CAST_TARGETS))
        elif c < 0.18:
            s = "(%s to %s) * %s" % (rnd.choice(phrases), rnd.choice(CAST_TARGETS), operand())
        elif c < 0.22:
            s = "%s to %s to %s" % (rnd.choice(phrases), rnd.choice(CAST_TARGETS), rnd.choice(CAST_TARGETS))
        elif c < 0.25:
            s = "(%s) ^ %d" % (s, rnd.choice([2, 3, -1, 0]))
        elif c < 0.28:
            s = "%s(%s)" % (rnd.choice(["floor", "ceil", "round", "sin", "nosuchfunction"]), s)
        elif c < 0.30:
            s = "{%s} * 2" % rnd.choice(phrases)
        elif c < 0.32:
            s = "0 - %s" % s
        if rnd.random() < 0.07:
            # both operands of one operation fail, each in its own way: the error that is reported (message and range) is part of the
            # answer, and must not depend on the describe flag either
            def failing():
                return rnd.choice(["1 / 0", "%s / 0" % rnd.choice(phrases), "nope(%s)" % operand(), "nosuchfact here now", "(2 m + 3 s)",
                                   "(%s to nosuchunit)" % rnd.choice(phrases), "(1 ft to s)", "0 ^ -1", "(%s + 1 s + 1 m)" % rnd.choice(phrases)])
            s = "%s%s%s" % (failing(), rnd.choice([" + ", " - ", " * ", " / "]), failing())
            if rnd.random() < 0.3:
                s = "%s%s%s" % (s, rnd.choice([" + ", " * "]), failing())
        out.append(s)
    return out


def run(chk):
    p = TIERS[chk.tier]
    vlib.build_harness("release")
    model(chk, p)
    facts = factlib.shipped("c18-facts")
    phrases = factlib.phrases(facts)
    rnd = random.Random(chk.seed + 18)
    queries = generate(rnd, phrases, p["queries"])
    special = ["population NOT finland", "population not finland", "population finland / population finland", "2 * pi", "pi * pi", "earth mass / moon mass"]
    # queries that could interact through shared state come first: they are the ones also evaluated on a database of their own
    special += [q for q in queries if any(c.isupper() for c in q)][:20]
    special += [q for q in queries if len(set(q.replace("(", " ").replace(")", " ").split(" / "))) == 1 and " / " in q][:10]
    queries = list(dict.fromkeys(special + queries))
    w = vlib.workdir("c18-run")
    inp, out = os.path.join(w, "queries.ndjson"), os.path.join(w, "rec.ndjson")
    vlib.write_ndjson(inp, queries)
    vlib.conform(["c18-record", "--in", inp, "--out", out, "--ids", lang.IDS, "--seed", chk.seed, "--fresh", p["fresh"], "--repo", vlib.REPO], timeout=7200)
    recs = vlib.read_ndjson(out)
    for r in recs:
        r["src"] = None
    # characters for the specification's grammar
    import json
    names = {"°": "DEG", "Ω": "OMEGA", "μ": "MU"}
    for r in recs:
        r["src"] = [names.get(c, c) for c in r["text"]]
    vlib.write_ndjson(out, recs)
    res = lang.validate(chk, out, "c18-val", module="Trace_Describe", label="evaluations", chunk=10 ** 9, jobs=1, env={"NQUERIES": len(queries)}, timeout=6000)
    chk.evals(res.records)
    for m in res.mismatches:
        rec = m["rec"] or {}
        mine = [x for x in m["problems"] if x in MINE]
        if mine:
            chk.violation("%r (%s, describe=%s): %s" % (rec.get("text"), rec.get("session"), rec.get("describe"), ",".join(mine)),
                          {"kind": "evaluation", "text": rec.get("text"), "session": rec.get("session"), "describe": rec.get("describe"), "results": lang.show(rec),
                           "lookups": rec.get("lookups"), "descriptions": rec.get("descs"), "problems": m["problems"],
                           "what": "the answer depends on describe / order / database, or the descriptions are not exactly the looked-up phrases with the constants found"})
        other = [x for x in m["problems"] if x not in MINE]
        if other:
            chk.drift("%r: %s" % (rec.get("text"), ",".join(other)))
    for r in recs:
        if len(r["lookups"]) >= 2 and all(x["k"] == "val" for x in r["res"]):
            chk.nontrivial(r["text"])
    chk.cov["queries"] = len(queries)
    chk.cov["evaluations_per_query"] = 4
    chk.cov["queries_also_on_own_database"] = p["fresh"]
    chk.cov["exhaustive"] = False
    chk.cov["rule"] = ("one evaluation = one query evaluated once (4 times per query on the shared database: describe off/on, stored and shuffled order; the first %d "
                       "also on a database of their own); queries mix fact phrases (all %d typable shipped phrases as the pool), literals, quantities, "
                       "parentheses, a call, the same phrase twice, and case variants; non-trivial = >= 2 lookups and all results values, distinct by text"
                       % (p["fresh"], len(phrases)))
    chk.sample({"query": queries[0]})
    chk.assumptions += ["which constant answers a phrase is taken from the lookup hook (C14 / C16 own whether it is the right one)",
                        "the order of descriptions is compared with the specification's evaluation order as drift only"]


def replay(chk, case):
    print("C18 replays by re-running the session check (a single query has no history); the failing evaluation was %r" % case.get("text"))
    run(chk)
