"""C11 - any input yields values or located errors, never a crash.

model  : the pipeline of the specification is total: spec/MC_LexerStream.tla (no deadlock, progress, for inputs of every
         length) and spec/MC_Parser.tla (a tree for every token string, never stuck, over all 17 token kinds).  Crash-freedom
         itself is a property of code, not of a design -- the level claimed is exploration.
traces : token soups up to 40 tokens (numbers with exponents up to 3 digits, powers up to 2 digits, unit words, fact words,
         function names, operators, brackets, blanks or none) and arbitrary Unicode strings are evaluated under catch_unwind
         in a debug-assertion build and a release build; spec/Trace_Outcome.tla checks every recorded outcome against the
         outcome type (values that can be displayed | errors with a message and a range inside the input on character
         boundaries).  A sample is also run through the real `any` binary (exit status, no panic message).
"""
import json, os, random, re
import vlib, lang, factlib, ugen
from vlib import tlc, expect_holds, ToolError

LEVEL = "exploration"
TIERS = {"quick": dict(soups=6000, unicode=3000, binary=150, allkinds=4), "thorough": dict(soups=250000, unicode=100000, binary=3000, allkinds=5)}
MINE = {"panic", "range", "message", "display"}
TOO_BIG = re.compile(r"(\^|\*\*)[\s(+\-]*\d{3,}|[eE][+\-]?\d{4,}|\d{40,}")
UNI = list("0123456789.eE+-*/^%(){}, \t") + list("abcdtomkszZ'°éü日本😀μΩ_\"=#~|\\<>[]!?:;&$@`") + [" ", " ", " ", "　", "\n", "\r", "\ufeff", "\x00", "\x01", "\x1b", "\x7f"]


def soup(rnd, words, n):
    toks = []
    last_pow = False
    pows = 0
    for _ in range(n):
        c = rnd.random()
        if last_pow:
            t = rnd.choice([str(rnd.randint(0, 99)), "-%d" % rnd.randint(1, 9), str(rnd.randint(0, 9)), rnd.choice(words), "m"])
            last_pow = False
        elif c < 0.28:
            t = lang.rand_literal(rnd, maxdigits=rnd.choice([1, 2, 4, 9, 20]), allow_exp=False)
            if rnd.random() < 0.15:
                t += rnd.choice("eE") + rnd.choice(["", "+", "-"]) + str(rnd.randint(0, 999))
        elif c < 0.5:
            t = rnd.choice(words)
        elif c < 0.8:
            t = rnd.choice(["+", "-", "*", "/", "^", "**", "to", "%", ",", "(", ")", "(", ")", "{", "}"])
            if t in ("^", "**"):
                if pows >= 2:
                    t = "*"
                else:
                    pows += 1
                    last_pow = True
        elif c < 0.9:
            t = rnd.choice(["round(", "floor(", "ceil(", "sin(", "cos(", "foo("])
        else:
            t = rnd.choice([".", "e", "1e", "-", "+", "'", "°", "to", "  ", "\t", "é", "1.", ".5.5", "1e+", "--1"])
        toks.append(t)
    s = ""
    for t in toks:
        s += t + rnd.choice(["", " ", " ", " ", "  "])
    return s


def owns(problem, rec):
    return problem in MINE


def run_strings(chk, strings, name, label, profile, chunk=1500):
    path = lang.record(strings, name, tokens=True, profile=profile)
    res = lang.validate(chk, path, name + "-" + profile, module="Trace_Outcome", label="%s (%s build)" % (label, profile), chunk=chunk)
    chk.evals(res.records)
    tag = "" if profile == "release" else "[debug-assertion build] "
    for m in res.mismatches:
        rec = m["rec"] or {}
        mine = [x for x in m["problems"] if x in MINE]
        if mine:
            chk.violation("%s%r: %s%s" % (tag, rec.get("text"), ",".join(mine), (" (" + rec.get("panic", "")[:120] + ")") if rec.get("panic") else ""),
                          {"kind": "input", "text": rec.get("text"), "build": profile, "panic": rec.get("panic"), "results": rec.get("res"), "problems": m["problems"],
                           "what": "the evaluation panicked, or a result is neither a displayable value nor an error with a message and a range inside the input on character boundaries"})
        other = [x for x in m["problems"] if x not in MINE]
        if other:
            chk.drift("%r (%s): %s" % (rec.get("text"), profile, ",".join(other)))
    for r in vlib.read_ndjson(path):
        if any(x["k"] == "err" for x in r["res"]) and any(x["k"] == "val" for x in r["res"]):
            chk.nontrivial(r["text"])
        elif any(ord(c) > 127 for c in r["text"]) and r["res"]:
            chk.nontrivial(r["text"])
    return res


def run(chk):
    p = TIERS[chk.tier]
    vlib.build_harness("release")
    vlib.build_harness("dbg")
    t = tlc("MC_LexerStream", "MC_LexerStream.cfg", workers=4)
    expect_holds(t, "MC_LexerStream")
    chk.model("MC_LexerStream", t, "the lexer handles every next character in every state (no deadlock), inputs of every length")
    w = vlib.workdir("c11-cfg")
    cfg = lang.mc_cfg(os.path.join(w, "parser.cfg"), consts=dict(lang.PARSER_REPAIRED, N=p["allkinds"]), fac=None, subst=["Alphabet <- All"], invariants=["LosslessInv"])
    t = tlc("MC_Parser", cfg, workers=12, timeout=3000, xmx="12g")
    expect_holds(t, "MC_Parser All")
    chk.model("MC_Parser All N=%d" % p["allkinds"], t, "the parser builds a tree for every token string (never stuck)")
    v = ugen.Vocab()
    facts = factlib.shipped("c11-facts")
    words = sorted({n for u in v.units.values() for n in u["names"] if v.typable(n)})[:200] + sorted({t for f in facts for t in f["tokens"] if factlib.simple_word(t)})[:300]
    words += [p_[0] + "m" for p_ in v.prefixes] + ["round", "floor", "ceil", "sin", "cos", "x", "to", "°C", "°F", "K", "c", "h", "y", "M", "T", "a"]
    rnd = random.Random(chk.seed + 11)
    soups = [soup(rnd, words, rnd.randint(1, 40)) for _ in range(p["soups"])]
    uni = []
    for _ in range(p["unicode"]):
        n = rnd.randint(1, 60)
        uni.append("".join(rnd.choice(UNI) for _ in range(n)))
    fixed = ["round(1.25, 1)", "1J/N * 1m", "3C/A / 8ms", "c/13.5min**3 VYm*", "(1m)^0", "(12N * 2m) ** 0 + 1", "1K / -273.15°C", "10m / -459.67°F", "1 ) ", "1 / 0", "0 ^ -1",
             "\ufeff1 + 2", "2e+", "1E-x", ".5e+", " (", " 1 to", " f(", "", " ", "(", ")", "{", "}", "{a b", "1 +", "to", "1 to", "1 to to", "round(", "round()", "round(,)", "f(", "1e", ".", "-", "1 m^", "1 m^x", "1 2", "1 m 2", "sin(1 m)",
             "sin(1e300)", "cos()", "1e999 * 1e999", "1e-999 / 1e999", "5 % %", "%", "1 %%", "(((((((((((1)))))))))))", "1 " * 40, "(" * 70 + "1" + ")" * 70]
    # structured edge cases: the shapes a soup almost never hits by chance
    units = ["m", "km", "s", "kg", "N", "J", "W", "m/s", "°C", "°F", "K", "Ym", "ym", "fm", "GB", "mi", "h"]
    edge = []
    for _ in range(max(400, p["soups"] // 10)):
        u = rnd.choice(units)
        a, b = rnd.randint(0, 20), rnd.randint(1, 9)
        edge += [rnd.choice([
            "%d%s / 0%s" % (b, u, u), "%d %s / (%d %s - %d %s)" % (b, u, a, u, a, u), "%d%s * 0%s" % (b, u, u), "0%s / 0%s" % (u, u), "(%d%s)^0" % (b, u),
            "1%s^%d * 1s" % (u, rnd.choice([2, 3, -3])), "%d / %d%s^%d" % (b, b, u, rnd.choice([2, 3])), "(1%s)^%d * 1 s" % (u, rnd.choice([2, -2, 5])),
            "%d%s + %d%s" % (a, u, b, rnd.choice(units)), "%d%s to %s" % (a, u, rnd.choice(units)), "%d %s%s" % (a, u, rnd.choice(["°q", "°°", "é", "^", "^x", "/", "*"])),
            "%d°C to k°°" % a, "%d m°q" % a, "%d°C + 1 °X" % a, "%de20" % b, "%de-20" % b, "0.%s%d" % ("0" * 19, b), "%d.%s" % (a, "1234567890" * 2),
            "round(%d.5 %s, %d)" % (a, u, rnd.randint(-3, 3)), "floor(%d %s, 1)" % (a, u), "%d%% %s" % (a, u), "%d %s %%" % (a, u), "-%d%s ^ -%d" % (b, u, rnd.randint(1, 3)),
            "%d to %s to %s" % (a, u, rnd.choice(units)), "{%s" % u, "%d + {%s %s" % (a, u, u), "%d%s/%d%s" % (a, u, 0, u)])]
    # towers of two-digit powers over quantities: the powers of the units multiply up (99^5 > 2^31); products and quotients
    # of such towers add them.  The value is kept at 1 or 0 so that only the unit arithmetic grows.
    towers = []
    for _ in range(max(200, p["soups"] // 20)):
        # units that carry a factor (prefix, conversion) make the exact value grow with the power (10^(3p), 0.3048^p: seconds
        # beyond p ~ 20 000, quadratic): their towers stay below that; coherent SI units carry no factor, their powers are free
        scaled = rnd.random() < 0.25
        u = rnd.choice(["km", "ft", "mi", "h", "mm/s"]) if scaled else rnd.choice(["m", "s", "kg", "J", "N", "W", "m/s", "J/N", "m^2", "s^-1", "Hz"])
        def tower(depth):
            t = "%d%s" % (rnd.choice([1, 1, 1, 0]), u)
            total = 1
            for _ in range(depth):
                e = rnd.choice(["99", "99", "98", "-99", "64", "46", "22", "12", "-8", "2"])
                if scaled and total * abs(int(e)) > 10000:
                    break
                total *= abs(int(e))
                t = "(%s)^%s" % (t, e)
            return t
        a = tower(rnd.randint(2, 6))
        towers.append(rnd.choice([a, a, "%s * %s" % (a, tower(rnd.randint(2, 5))), "%s / %s" % (a, tower(rnd.randint(2, 5))), "%s * 1%s" % (a, u), "%s to %s" % (a, u),
                                  "%s + %s" % (a, a), "round(%s)" % a]))
    towers += ["((((1m^99)^99)^99)^99)^99", "(1m^50000)^50000", "((((1m^99)^99)^99)^22) * ((((1m^99)^99)^99)^22)", "((((1J^99)^99)^99)^99)^12 * 1 m", "1 m^99 m^99 m^99"]
    # long tokens with a multi-byte character at every byte offset: whatever cuts, pads or quotes a piece of the query at a
    # fixed length meets a character boundary sooner or later
    longtok = []
    for k in range(0, 72):
        for mb in ("°", "é", "\u00a0", "日", "😀"):
            body = "q" * k + mb + "q" * rnd.randint(1, 6)
            longtok += [rnd.choice(["1 " + body, body, "1 to " + body, "1 m" + body, body + "(1)", "{" + body + "}", "1 " + body + " + 1", "a b " + body + " c",
                                    "1 k" + body, "round(1, " + body + ")", "1 " + body + "^2"])]
    strings = [s for s in fixed + edge + towers + longtok + soups + uni if not TOO_BIG.search(s)]
    chk.cov["filtered_beyond_stated_bounds"] = len(fixed + edge + towers + longtok + soups + uni) - len(strings)
    chk.cov["structured_edge_cases"] = len(edge)
    chk.cov["towers_of_powers"] = len(towers)
    chk.cov["long_tokens_with_multibyte_characters"] = len(longtok)
    for profile in ("dbg", "release"):
        run_strings(chk, strings, "c11-strings", "soups and Unicode strings", profile)
    # a sample through the real binary
    w = vlib.workdir("c11-bin")
    sample = fixed + towers[:20] + rnd.sample(edge, min(len(edge), p["binary"] // 2)) + rnd.sample(soups, min(len(soups), p["binary"]))
    sample = [s for s in sample if not TOO_BIG.search(s) and "\x00" not in s]
    inp, out = os.path.join(w, "queries.ndjson"), os.path.join(w, "rec.ndjson")
    vlib.write_ndjson(inp, sample)
    vlib.conform(["c19-record", "--in", inp, "--out", out, "--any", vlib.conform_bin("release", "any")], timeout=7200)
    nb = 0
    for r in vlib.read_ndjson(out):
        nb += 1
        chk.evals()
        if r.get("timeout") and not lang.cheap(r["text"]):
            chk.skipped()       # slow exact arithmetic on huge numbers, not a hang (lang.cheap)
            continue
        crashed = r["exit"] not in (0, 1) or any("panicked" in l for l in r["stderr"])
        if crashed:
            chk.violation("binary on %r: exit %s %s" % (r["text"], r["exit"], r["stderr"][:1]),
                          {"kind": "binary", "text": r["text"], "mode": r["mode"], "exit": r["exit"], "stderr": r["stderr"],
                           "what": "the `any` program crashed instead of printing values or diagnostics"})
    chk.cov["runs_of_the_binary"] = nb
    for x in soups[:3] + uni[:2]:
        chk.sample({"input": x})
    chk.cov["exhaustive"] = False
    chk.cov["rule"] = ("one evaluation = one input evaluated by one build kind (debug-assertion, release) under catch_unwind, or one run of the binary; inputs: %d token soups of "
                       "1..40 tokens, %d Unicode strings of 1..60 characters, %d fixed edge cases; inputs beyond the stated bounds (power operand of more than two digits, "
                       "exponent of more than three) are filtered; non-trivial = the outcome mixes values and errors, or the input is non-ASCII and has results"
                       % (len(soups), len(uni), len(fixed)))
    chk.assumptions += ["termination is observed (the recorder would hang), not proved", "panics are caught with catch_unwind in process; aborts would end the recorder and be reported as a tool error"]


def replay(chk, case):
    if case.get("kind") == "binary":
        vlib.build_harness("release")
        w = vlib.workdir("c11-bin-replay")
        inp, out = os.path.join(w, "queries.ndjson"), os.path.join(w, "rec.ndjson")
        i = {"default": 0, "exact": 1, "describe": 2}[case.get("mode", "default")]
        vlib.write_ndjson(inp, ["1"] * i + [case["text"]])
        vlib.conform(["c19-record", "--in", inp, "--out", out, "--any", vlib.conform_bin("release", "any")])
        r = vlib.read_ndjson(out)[-1]
        if r["exit"] not in (0, 1) or any("panicked" in l for l in r["stderr"]):
            chk.violation("binary on %r" % case["text"], case)
        return
    profile = case.get("build", "release")
    vlib.build_harness(profile)
    run_strings(chk, [case["text"]], "c11-replayed", "replay", profile)
