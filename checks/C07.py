"""C07 - decimal literals are read exactly.

model  : spec/MC_Literal.tla -- every string <= 8 over {0 1 9 + - . e E}, grown through viable prefixes:
         the transcribed reader (Literal.FromStr, byte by byte as impl FromStr for Rational) equals the
         declarative denotation on every well-formed literal, and the lexer takes it as one NUMBER token.
replay : every well-formed literal of the model (exponents up to three digits) is given to the library's
         number parser, written as a query, and as a percentage; spec/Trace_Literal.tla compares each result
         with Denote(src) (resp. / 100) in F_p.
traces : random literals up to 600 digits (every digit in every role, leading zeros, bare points, signs).
"""
import os, random
import vlib, lang
from vlib import tlc, expect_holds, ToolError

LEVEL = "model_checking"
TIERS = {"quick": dict(maxlen=8, replay_full=7, thin=5, random=2500, digits=600),
         "thorough": dict(maxlen=9, replay_full=8, thin=4, random=50000, digits=600)}
WHAT = {"library": "the library's number parser does not return the number the literal spells",
        "query": "the literal written as a query does not evaluate to the number it spells",
        "percent": "the literal followed by % does not evaluate to a hundredth of the number it spells",
        "extent": "the lexer does not take the literal as one NUMBER token"}


def exp_digits(s):
    for m in "eE":
        if m in s:
            return len(s.split(m, 1)[1].lstrip("+-").lstrip("0"))
    return 0


def run_literals(chk, strings, name, label, chunk=4000):
    w = os.path.join(vlib.WORK, name)
    os.makedirs(w, exist_ok=True)
    inp, out = os.path.join(w, "in.ndjson"), os.path.join(w, "rec.ndjson")
    vlib.write_ndjson(inp, strings)
    vlib.conform(["c07-record", "--in", inp, "--out", out], timeout=3600)
    res = lang.validate(chk, out, name, module="Trace_Literal", label=label, chunk=chunk)
    chk.evals(res.records)
    for m in res.mismatches:
        rec = m["rec"] or {}
        mine = [x for x in m["problems"] if x in WHAT]
        if mine:
            chk.violation("literal %s: %s" % (rec.get("text"), ",".join(mine)),
                          {"kind": "literal", "text": rec.get("text"), "what": "; ".join(WHAT[x] for x in mine),
                           "library": rec.get("lib"), "query": rec.get("q"), "percent": rec.get("pct")})
        other = [x for x in m["problems"] if x not in WHAT]
        if other:
            chk.drift("literal %r: %s" % (rec.get("text"), ",".join(other)))
    for s in strings:
        if "." in s or "e" in s or "E" in s or s.lstrip("+-").startswith("0"):
            chk.nontrivial(s)
    return res


def rand_lit(rnd, maxdigits):
    def digs(n, first=None):
        return "".join(rnd.choice("0123456789") for _ in range(n))
    n = rnd.choice([1, 2, 5, 17, 40, 100, maxdigits // 2, maxdigits]) if rnd.random() < 0.7 else rnd.randint(1, maxdigits)
    form = rnd.random()
    ip = ("0" * rnd.randint(0, 3) if rnd.random() < 0.3 else "") + digs(rnd.randint(1, n))
    if form < 0.3:
        s = ip
    elif form < 0.7:
        s = ip + "." + digs(rnd.randint(1, n)) + ("0" * rnd.randint(0, 3) if rnd.random() < 0.3 else "")
    elif form < 0.8:
        s = "." + digs(rnd.randint(1, n))
    elif form < 0.9:
        s = ip + "."
    else:
        s = "0" * rnd.randint(1, 5) + "." + "0" * rnd.randint(0, 5) + digs(rnd.randint(0, 5))
    if rnd.random() < 0.4:
        s += rnd.choice("eE") + rnd.choice(["", "+", "-"]) + ("0" * rnd.randint(0, 2) if rnd.random() < 0.2 else "") + str(rnd.randint(0, 999))
    if rnd.random() < 0.3:
        s = rnd.choice("+-") + s
    return s


def run(chk):
    p = TIERS[chk.tier]
    vlib.build_harness("release")
    w = vlib.workdir("c07-cfg")
    cfg = os.path.join(w, "lit.cfg")
    with open(cfg, "w") as f:
        f.write('INIT Init\nNEXT Next\nCONSTANTS\n MaxLen = %d\n Alphabet = {"0","1","9","+","-",".","e","E"}\n Emit = TRUE\n'
                'INVARIANT Exact\nINVARIANT LexOne\nINVARIANT EmitInv\nCHECK_DEADLOCK FALSE\n' % p["maxlen"])
    t = tlc("MC_Literal", cfg, workers=12, timeout=3000, xmx="12g")
    expect_holds(t, "MC_Literal")
    chk.model("MC_Literal MaxLen=%d" % p["maxlen"], t, "every viable prefix; Exact (FromStr = Denote), LexOne")
    lits = ["".join(v["src"]) for tag, v in t.vecs]
    if len(lits) < 1000:
        raise ToolError("MC_Literal emitted only %d literals" % len(lits))
    total = len(lits)
    lits = [s for s in lits if exp_digits(s) <= 3]
    # quick tier: every literal up to replay_full characters, and every thin-th of the longer ones
    lits = [s for i, s in enumerate(sorted(lits)) if len(s) <= p["replay_full"] or (i + chk.seed) % p["thin"] == 0]
    res = run_literals(chk, lits, "c07-replay", "replay of MC_Literal literals")
    if res.judged != len(lits):
        raise ToolError("Trace_Literal judged %d of %d model literals well-formed" % (res.judged, len(lits)))
    rnd = random.Random(chk.seed + 7)
    rs = [rand_lit(rnd, p["digits"]) for _ in range(p["random"])]
    # every digit in every role
    for d in "0123456789":
        rs += [d, "7" + d, d + ".5", "3." + d, "0.0" + d, "2e" + d, "2e-" + d, "1" + d + "e1" + d, "-" + d, "+" + d + "." + d]
    res2 = run_literals(chk, rs, "c07-random", "random literals", chunk=400)
    # one literal several times in one query, with and without the percent sign, next to literals that differ from it in
    # one character: what a literal denotes must not depend on what else the query contains
    small = [s for s in lits if len(s) <= 6][:: max(1, len([s for s in lits if len(s) <= 6]) // 250)] + [x for x in rs if len(x) <= 30][:250]
    multi = []
    for s_ in small:
        u = s_.lstrip("+-")       # (a sign between two literals would be read as an operator)
        if not u:
            continue
        multi.append(rnd.choice(["(%s) (%s%%) (%s)", "(%s%%) (%s) (%s%%)", "%s + %s%% + %s", "%s%% + %s", "(%s) (%s%%) (%s0)", "%s * %s%% - %s"]).replace("%s", u).replace("%%", "%"))
    path = lang.record(multi, "c07-multi")
    res3 = lang.validate(chk, path, "c07-multi", label="a literal several times in one query", chunk=300)
    chk.evals(res3.records)
    lang.judge(chk, res3, lambda pr, rec: pr[0] in ("result", "count", "panic"), "a literal does not denote the number it spells when it stands next to other literals in one query")
    chk.cov["exhaustive"] = True
    chk.cov["rule"] = ("exhaustive: all %d well-formed literals among the strings of length <= %d over {0 1 9 + - . e E} (model), of which %d (exponent of at most three "
                       "digits; all up to 7 (thorough: 8) characters and every 5th (4th) of the longer ones) are replayed through three entry points (library parser, query, query with %%); "
                       "plus %d random literals up to %d digits, and 500 queries in which one literal stands several times, with and without %%; one evaluation = one literal (or one such query); non-trivial = has a point, an exponent or a "
                       "leading zero" % (total, p["maxlen"], len(lits), len(rs), p["digits"]))
    chk.sample({"literal": lits[len(lits) // 3], "literals_replayed": len(lits)})
    chk.sample({"literal": rs[0][:80] + ("..." if len(rs[0]) > 80 else "")})
    chk.assumptions += ["values are compared in F_p for 4 primes (exact acceptance; a wrong value passes with probability ~1e-18)",
                        "literals with exponents of more than three digits are checked in the model only (the tool builds 10^exp as a big integer)"]


def replay(chk, case):
    vlib.build_harness("release")
    run_literals(chk, [case["text"]], "c07-replayed", "replay")
