"""C09 - temperature scales convert by their defining affine formulas.

model  : spec/MC_Temp.tla -- in the reference evaluator (Eval.tla, Temperature = TRUE) every single conversion among
         K, degC, degF (and a prefixed scale) follows K = C + 273.15, C = (F - 32) * 5/9 written out independently
         of the unit table; chains of up to 4 conversions end where the direct one does; there-and-back is the
         identity; a scale that is squared, inverted or multiplied with another unit converts as an interval or
         is refused -- on a grid of rational magnitudes.
traces : random rational magnitudes x all ordered pairs of scales x chains <= 4; powers -3..3 of a scale; scales
         combined with one or two other units; products, quotients and powers of temperatures.  spec/Trace_Lang.tla
         (Temperature = TRUE) compares every recorded application and result: exact affine value where the scale
         stands alone, otherwise "refused, or the interval value" -- the zero point must never be added.
"""
import os, random
import vlib, lang, ugen
from vlib import tlc, expect_holds, ToolError

LEVEL = "model_checking"
TIERS = {"quick": dict(n=2500, MaxA=40, chain=3), "thorough": dict(n=60000, MaxA=120, chain=4)}
SCALES = ["K", "°C", "°F", "celsius", "fahrenheit", "kelvin", "m°C", "kK", "mK"]
OTHER = ["m", "s", "kg", "J", "W", "km", "mol", "ft", "min"]


def owns(problem, rec):
    return problem[0] in ("result", "app", "panic", "count")


def mag(rnd):
    c = rnd.random()
    if c < 0.3:
        return str(rnd.choice([0, 32, 100, 212, -40, 37, 273, -273, 451, 5, 20]))
    if c < 0.4:
        return rnd.choice(["273.15", "-273.15", "-459.67", "0.01", "98.6", "36.6"])
    return lang.rand_literal(rnd, maxdigits=rnd.choice([2, 4, 9, 25]), allow_exp=rnd.random() < 0.2)


def generate(rnd, n):
    out = []
    for _ in range(n):
        c = rnd.random()
        x = mag(rnd)
        a = rnd.choice(SCALES)
        if c < 0.45:
            # chains of conversions among scales standing alone
            k = rnd.randint(1, 4)
            s = "%s %s" % (x, a)
            for _ in range(k):
                s += " to %s" % rnd.choice(SCALES)
            out.append(s)
        elif c < 0.6:
            p = rnd.choice([-3, -2, -1, 2, 3])
            b = rnd.choice(SCALES[:6])
            a = rnd.choice(SCALES[:6])
            out.append("%s %s^%d to %s^%d" % (x, a, p, b, p))
        elif c < 0.78:
            o = rnd.choice(OTHER)
            b = rnd.choice(SCALES[:6])
            a = rnd.choice(SCALES[:6])
            form = rnd.choice(["%s %s*%s to %s*%s", "%s %s/%s to %s/%s", "%s %s %s to %s %s"])
            if rnd.random() < 0.5:
                out.append(form % (x, a, o, b, o))
            else:
                out.append(form % (x, o, a, o, b))
            if rnd.random() < 0.3:
                # other units whose dimensions cancel: the scale still does not stand alone
                p1, p2 = rnd.choice([("ft", "m"), ("min", "s"), ("h", "s"), ("km", "mi"), ("kg", "lb"), ("in", "cm")])
                out.append(rnd.choice(["%s %s %s/%s to %s", "%s %s*%s/%s to %s"]) % (x, a, p1, p2, b))
                out.append("%s %s to %s %s/%s" % (x, a, b, p1, p2))
            if rnd.random() < 0.3:
                o2 = rnd.choice(OTHER)
                if o2 != o:
                    out.append("%s %s*%s/%s to %s*%s/%s" % (x, o, a, o2, o, b, o2))
        else:
            a = rnd.choice(SCALES[:6])
            y = mag(rnd)
            o = rnd.choice(OTHER)
            out.append(rnd.choice([
                "%s %s * %s %s" % (x, a, y, o), "%s %s * %s %s" % (y, o, x, a), "%s %s * %s %s" % (x, a, y, rnd.choice(SCALES[:6])),
                "%s %s / %s %s" % (y, o, x, a), "%s %s / %s %s" % (x, a, y, o), "(%s %s)^%d" % (x, a, rnd.choice([2, 3, -1, -2, 1, 0])),
                "%s %s * %s" % (x, a, y), "%s * %s %s" % (y, x, a), "%s %s / %s" % (x, a, rnd.choice(["2", "4", "0.5"])), "%s %s + %s %s" % (x, a, y, a),
                "%s %s - %s %s" % (x, a, y, a), "%s + %s %s" % (y, x, a), "%s %s * %s %s to %s*%s" % (x, a, y, o, "K", o)]))
    return out


def run_strings(chk, strings, name, label, chunk=600):
    path = lang.record(strings, name)
    res = lang.validate(chk, path, name, label=label, chunk=chunk, consts={"Temperature": "TRUE"})
    chk.evals(res.records)
    lang.judge(chk, res, owns, "a temperature conversion does not follow K = C + 273.15, C = (F - 32) * 5/9, or the zero point of an offset scale "
               "entered a quantity in which the scale does not stand alone with power one")
    recs = vlib.read_ndjson(path)
    for r in recs:
        for a in r["apps"]:
            us = {x[0] for arg in a["args"] for x in arg["u"]}
            if us & {"CELSIUS", "FAHRENHEIT"} and (len(us) >= 2 or a["op"] != "to"):
                chk.nontrivial(r["text"])
    return res, recs


def run(chk):
    p = TIERS[chk.tier]
    vlib.build_harness("release")
    w = vlib.workdir("c09-cfg")
    cfg = lang.mc_cfg(os.path.join(w, "temp.cfg"), consts=dict(MaxA=p["MaxA"], Dens="{1, 2, 3, 7, 10}", MaxChain=p["chain"], ZeroPowEarlyExit="FALSE",
                                                               ZeroEntriesKept="FALSE", Temperature="TRUE"),
                      invariants=["Formulas", "Composes", "Inverts", "Misplaced"])
    t = tlc("MC_Temp", cfg, workers=12, timeout=6000, xmx="12g")
    expect_holds(t, "MC_Temp")
    chk.model("MC_Temp a<=%d chains<=%d" % (p["MaxA"], p["chain"] + 1), t, "Formulas, Composes, Inverts, Misplaced")
    rnd = random.Random(chk.seed + 9)
    strings = ["0 °C to K", "100 °C to °F", "-40 °F to °C", "0 K to °F", "32 °F to K", "1 °C^-1 to K^-1", "1 m*°C to m*K", "2 m * 10 °C", "10 °C * 1 °C",
               "1 J / 10 °C", "1 K * 1 °C", "10 °C * 2", "(10 °C)^2", "1 kK to m°C", "300K to m°C to K", "1 K / -273.15°C", "10m / -459.67°F"]
    strings += generate(rnd, p["n"])
    res, recs = run_strings(chk, strings, "c09-temp", "temperature queries")
    chk.cov["decided_by_spec"] = res.decided
    chk.cov["skipped_out_of_domain"] = res.records - res.decided
    if res.decided < res.records // 2:
        raise ToolError("the specification decided only %d of %d generated queries" % (res.decided, res.records))
    for r in recs[:3] + recs[40:43]:
        chk.sample({"query": r["text"], "result": lang.show(r)})
    chk.cov["exhaustive"] = False
    chk.cov["rule"] = ("one evaluation = one query: chains of 1..4 conversions among K, degC, degF (several spellings, prefixes), powers -3..3 of a scale, scales "
                       "combined with one or two other units, and products / quotients / powers / sums of temperatures, random rational magnitudes up to 25 digits; "
                       "non-trivial = an application in which an offset scale takes part next to another unit or under an operator other than `to`, "
                       "distinct by query text")
    chk.assumptions += ["sums and differences of two *different* scales are not specified by the property and are not judged"]


def replay(chk, case):
    vlib.build_harness("release")
    run_strings(chk, [case["text"]], "c09-replayed", "replay")
