"""C04 - products, quotients and integer powers of quantities are dimensionally exact.

model  : spec/MC_Units.tla -- mul() with reconstruct / bases_match / inner_match as transcribed from compound.rs:
         for a*b and a/b on a sub-vocabulary the re-derived unit has no zero power, dimensions add up and
         value * Scale(unit) is exactly the product / quotient of the SI values (MulExact).
traces : expression trees over quantities (derived, prefixed, powered units) with * / ^ and parentheses, plus
         (q)^n next to the n-fold product; every * / ^ application reported by the hook and every result is checked by
         spec/Trace_Lang.tla: SI value in F_p, base dimensions exactly, no zero power in the displayed unit.
         The displayed unit is left to the tool.
"""
import os, random
import vlib, lang, ugen
from vlib import tlc, expect_holds, ToolError

LEVEL = "model_checking"
TIERS = {"quick": dict(n=10000, wide="FALSE"), "thorough": dict(n=80000, wide="TRUE")}
MINE = {"value", "dims", "zero-power-in-unit", "unexpected-error", "error-expected", "divzero-gave-value"}


def owns(problem, rec):
    ops = {a["op"] for a in rec.get("apps", [])}
    if problem[0] == "result":
        # a result is this check's business when the query only multiplies, divides and raises
        return problem[2] in MINE and ops <= {"*", "/", "^"}
    if problem[0] == "app":
        return problem[2] in ("*", "/", "^") and problem[3] in MINE
    return problem[0] in ("panic", "count")


def generate(rnd, n):
    v = ugen.Vocab()
    ug = ugen.UnitGen(v, rnd, maxpow=2)

    def q(simple=False):
        s, _ = ugen.quantity(rnd, ug, simple=simple)
        return s

    def tree(d):
        if d <= 0 or rnd.random() < 0.3:
            return q() if rnd.random() < 0.85 else ugen.magnitude(rnd)
        op = rnd.choice(["*", "/", "*", "/", "^"])
        l = tree(d - 1)
        if op == "^":
            return "(%s)%s^%s%d" % (l, rnd.choice(["", " "]), rnd.choice(["", " "]), rnd.choice([0, 1, 2, 3, -1, -2, 2, 3, 5, 6, -6, 10]))
        r = tree(d - 1)
        if rnd.random() < 0.5 or "/" in r or "*" in r:
            r = "(" + r + ")"
        if rnd.random() < 0.3:
            l = "(" + l + ")"
        return "%s %s %s" % (l, op, r)

    out = []
    for _ in range(n):
        c = rnd.random()
        if c < 0.45:
            out.append("%s %s %s" % (q(), rnd.choice("*/"), q()))
        elif c < 0.8:
            out.append(tree(rnd.randint(2, 3)))
        else:
            s = q(simple=True)
            k = rnd.choice([2, 3, 4, 5, 6, 7, 8, 10, 12])
            out.append("(%s)^%d" % (s, k))
            out.append(" * ".join([s] * k))
            if rnd.random() < 0.3:
                out.append("(%s)^-%d" % (s, k))
                out.append("1 / (%s)" % " * ".join([s] * k))
            if rnd.random() < 0.3:
                out.append("(%s)^0" % s)
    return out


def run_strings(chk, strings, name, label, observed, chunk=500):
    path = lang.record(strings, name)
    res = lang.validate(chk, path, name, label=label, chunk=chunk, fac="ObsFacR", observed=observed)
    chk.evals(res.records)
    lang.judge(chk, res, owns, "a product, quotient or power does not have the SI value / base dimensions of its operands' product, quotient or power")
    recs = vlib.read_ndjson(path)
    napps = 0
    for r in recs:
        for a in r["apps"]:
            if a["op"] in ("*", "/", "^"):
                napps += 1
                us = [x for arg in a["args"] for x in arg["u"]]
                if len({x[0] for x in us}) >= 2 and any(x[0].isupper() for x in us):
                    chk.nontrivial([a["op"], a["args"][0]["u"], a["args"][1]["u"]])
    chk.cov["applications_checked"] = chk.cov.get("applications_checked", 0) + napps
    chk.evals(napps)       # every application is compared on its own: a case of its own
    return res, recs


def run(chk):
    p = TIERS[chk.tier]
    vlib.build_harness("release")
    w = vlib.workdir("c04-cfg")
    cfg = lang.mc_cfg(os.path.join(w, "units.cfg"), consts=dict(Wide=p["wide"], ZeroEntriesKept="FALSE"), invariants=["MulExact"])
    t = tlc("MC_Units", cfg, workers=12, timeout=6000, xmx="12g")
    expect_holds(t, "MC_Units MulExact")
    chk.model("MC_Units Wide=%s" % p["wide"], t, "MulExact: reconstruct keeps products and quotients SI-exact, dimensionally additive, free of zero powers")
    observed, table = lang.observed_scales("c04-observed")
    rnd = random.Random(chk.seed + 4)
    qt = lang.quantity_trees(chk, "c04-qty", k=2)
    run_strings(chk, qt, "c04-qtrees", "exhaustive small trees over quantities", observed, chunk=1500)
    strings = generate(rnd, p["n"])
    res, recs = run_strings(chk, strings, "c04-mul", "products, quotients, powers", observed)
    chk.cov["decided_by_spec"] = res.decided
    chk.cov["skipped_out_of_domain"] = res.records - res.decided
    if res.decided < res.records // 3:
        raise ToolError("the specification decided only %d of %d generated expressions" % (res.decided, res.records))
    for r in recs[:4]:
        chk.sample({"query": r["text"], "result": lang.show(r)})
    chk.cov["exhaustive"] = False
    chk.cov["rule"] = ("one evaluation = one * / ^ application compared on its own (operands and result as the hook reports them), or one whole query over quantities with * / ^ and parentheses (two operands, trees of depth <= 3, (q)^n next to the n-fold "
                       "product); every * / ^ application and every result is compared (SI value in F_p, base dimensions exactly); non-trivial = an "
                       "application whose operands carry >= 2 different units, one of them derived, distinct by (operator, operand units)")
    chk.assumptions += ["per-unit factors are the ones the tool itself exhibits (standard values are C05's subject)", "offset scales are excluded (C09)"]


def replay(chk, case):
    vlib.build_harness("release")
    observed, _ = lang.observed_scales("c04-observed")
    run_strings(chk, [case["text"]], "c04-replayed", "replay", observed)
