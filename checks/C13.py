"""C13 - quantity arithmetic obeys the field laws, including looked-up facts.

model  : spec/MC_Units.tla -- MulExact / FactorIff: the specification's own product, quotient and commensurability
         are SI-exact on the sub-vocabulary (the laws are theorems of SI(x, c) = x * Scale(c) and Dims).
traces : triples a, b, c drawn from literals over the whole unit vocabulary and from every fact of the shipped
         database; both sides of  a+b = b+a, a*b = b*a, (a+b)+c = a+(b+c), (a*b)*c = a*(b*c), a*(b+c) = a*b+a*c,
         a-a = 0, a/a = 1  are evaluated by the real tool; spec/Trace_Laws.tla compares the two sides: the same
         SI value in F_p and the same base dimensions, whatever units are displayed.
"""
import json, os, random
import vlib, lang, ugen
from vlib import tlc, expect_holds, ToolError

LEVEL = "model_checking"
TIERS = {"quick": dict(n=3000), "thorough": dict(n=120000)}
LAWS = ["add-comm", "mul-comm", "add-assoc", "mul-assoc", "distr", "sub-self", "div-self"]


def fact_pool(chk):
    """every shipped fact that can be typed as a phrase, with the unit the tool reports for it"""
    w = vlib.workdir("c13-facts")
    lst = os.path.join(w, "facts.ndjson")
    vlib.conform(["facts-list", "--repo", vlib.REPO, "--out", lst])
    facts = vlib.read_ndjson(lst)
    phrases = []
    for f in facts:
        toks = f["tokens"]
        if toks and all(t.isascii() and t.isalnum() and not t[0].isdigit() and t != "to" for t in toks):
            phrases.append(" ".join(toks))
    phrases = sorted(set(phrases))
    path = lang.record(phrases, "c13-facts")
    pool = []
    for r in vlib.read_ndjson(path):
        if len(r["res"]) == 1 and r["res"][0]["k"] == "val" and len(r["lookups"]) == 1:
            pool.append({"text": r["text"], "u": r["res"][0]["u"]})
    return pool, len(facts)


def generate(chk, rnd, n, pool):
    v = ugen.Vocab()
    ug = ugen.UnitGen(v, rnd, maxpow=2)

    def dims_of(u):
        d = ugen.ZERO
        for k, pw, px in u:
            if k not in v.units:
                return None
            d = ugen.dim_add(d, v.dimkey(v.units[k]["dims"]), pw)
        return d
    by_dims = {}
    for f in pool:
        d = dims_of(f["u"])
        f["dims"] = d
        if d is not None and not any(k in v.offset for k, _, _ in f["u"]):
            by_dims.setdefault(d, []).append(f)

    def literal(terms=None):
        s, t = ugen.quantity(rnd, ug, terms)
        return {"text": s, "terms": t, "dims": ug.dims(t)}

    def like(a):
        """an operand with the dimensions of a: a fact of equal dimensions, or a literal in a respelling of a's unit"""
        d = a["dims"]
        plain = not a.get("terms") and not a.get("u")
        # a plain number added to a quantity *adopts* its unit (C02): such a sum is not the addition of the two SI values, so
        # the addition laws are only instantiated with operands that both carry units or are both plain numbers
        cands = [f for f in by_dims.get(d, []) if (not f["u"]) == plain]
        if cands and rnd.random() < 0.4:
            return rnd.choice(cands)
        if a.get("terms"):
            return literal(ug.respell(a["terms"]))
        if "terms" in a:
            return {"text": ugen.magnitude(rnd), "terms": [], "dims": ugen.ZERO, "u": []}
        # a fact: spell its displayed unit with unambiguous words
        terms = []
        for k, pw, px in a["u"]:
            t = ug.term(k, pw) if k in ug.keys else None
            if t is None:
                return None
            terms.append(t)
        if not terms:
            return {"text": ugen.magnitude(rnd), "terms": [], "dims": ugen.ZERO, "u": []}
        return literal(ug.respell(terms) if rnd.random() < 0.5 else terms)

    def any_operand():
        if rnd.random() < 0.45 and pool:
            f = rnd.choice(pool)
            if f["dims"] is not None and not any(k in v.offset for k, _, _ in f["u"]):
                return f
        return literal()
    out = []
    used_facts = set()
    # every usable fact once as `a`
    queue = [f for ds in by_dims.values() for f in ds]
    rnd.shuffle(queue)
    while len(out) < n:
        a = queue.pop() if queue else any_operand()
        law = rnd.choice(LAWS)
        if law in ("add-comm", "add-assoc", "distr"):
            b = like(a)
            c = like(a)
            if b is None or c is None:
                continue
        else:
            b, c = any_operand(), any_operand()
        A, B, C = "(%s)" % a["text"], "(%s)" % b["text"], "(%s)" % c["text"]
        if law == "add-comm":
            l, r = "%s + %s" % (A, B), "%s + %s" % (B, A)
        elif law == "mul-comm":
            l, r = "%s * %s" % (A, B), "%s * %s" % (B, A)
        elif law == "add-assoc":
            l, r = "(%s + %s) + %s" % (A, B, C), "%s + (%s + %s)" % (A, B, C)
        elif law == "mul-assoc":
            l, r = "(%s * %s) * %s" % (A, B, C), "%s * (%s * %s)" % (A, B, C)
        elif law == "distr":
            X = any_operand()
            XX = "(%s)" % X["text"]
            l, r = "%s * (%s + %s)" % (XX, A, B), "%s * %s + %s * %s" % (XX, A, XX, B)
            a = dict(a, fact2="terms" not in X)
        elif law == "sub-self":
            l, r = "%s - %s" % (A, A), A
        else:
            l, r = "%s / %s" % (A, A), A
        nf = sum(1 for x in (a, b, c) if "terms" not in x)
        out.append({"law": law, "lhs": l, "rhs": r, "facts": nf})
    return out


def run_instances(chk, inst, name, observed, chunk=800):
    strings = []
    for i in inst:
        strings += [i["lhs"], i["rhs"]]
    path = lang.record(strings, name)
    recs = vlib.read_ndjson(path)
    rows = []
    for j, i in enumerate(inst):
        L, R = recs[2 * j], recs[2 * j + 1]

        def one(r):
            if len(r["res"]) == 1 and r["res"][0]["k"] == "val" and not r["panic"]:
                x = r["res"][0]
                return {"k": "val", "neg": x["neg"], "n": x["n"], "d": x["d"], "u": x["u"]}
            return {"k": "err", "neg": False, "n": [0], "d": [1], "u": []}
        rows.append({"id": j + 1, "law": i["law"], "text": "%s  =?=  %s" % (i["lhs"], i["rhs"]), "lhs": one(L), "rhs": one(R), "facts": i["facts"]})
    w = os.path.join(vlib.WORK, name)
    lp = os.path.join(w, "laws.ndjson")
    vlib.write_ndjson(lp, rows)
    res = lang.validate(chk, lp, name + "-laws", module="Trace_Laws", label="law instances", chunk=chunk, fac="ObsFacR", observed=observed)
    chk.evals(res.records)
    for m in res.mismatches:
        rec = m["rec"] or {}
        chk.violation("%s: %s: %s" % (rec.get("law"), rec.get("text"), ",".join(m["problems"])),
                      {"kind": "law", "law": rec.get("law"), "text": rec.get("text"), "lhs": rec.get("lhs"), "rhs": rec.get("rhs"),
                       "what": "the two sides of a field law do not have the same base-SI value and base dimensions: " + ",".join(m["problems"])})
    for r in rows:
        if r["lhs"]["k"] == "val" and r["rhs"]["k"] == "val" and (r["facts"] or len(r["lhs"]["u"]) >= 2):
            chk.nontrivial(r["text"])
    return res, rows


def run(chk):
    p = TIERS[chk.tier]
    vlib.build_harness("release")
    w = vlib.workdir("c13-cfg")
    cfg = lang.mc_cfg(os.path.join(w, "units.cfg"), consts=dict(Wide="FALSE", ZeroEntriesKept="FALSE"), invariants=["FactorIff", "MulExact"])
    t = tlc("MC_Units", cfg, workers=12, timeout=6000, xmx="12g")
    expect_holds(t, "MC_Units")
    chk.model("MC_Units", t, "FactorIff, MulExact")
    observed, table = lang.observed_scales("c13-observed")
    pool, nfacts = fact_pool(chk)
    chk.cov["facts_shipped"] = nfacts
    chk.cov["facts_usable_as_operands"] = len(pool)
    rnd = random.Random(chk.seed + 13)
    inst = generate(chk, rnd, p["n"], pool)
    res, rows = run_instances(chk, inst, "c13-laws", observed)
    chk.cov["instances_decided"] = res.decided
    chk.cov["skipped_out_of_domain"] = res.records - res.decided
    chk.cov["instances_with_facts"] = sum(1 for r in rows if r["facts"])
    if res.decided < res.records // 3:
        raise ToolError("only %d of %d law instances were decided (operands incompatible?)" % (res.decided, res.records))
    for r in rows[:4]:
        chk.sample({"law": r["law"], "instance": r["text"][:200]})
    chk.cov["exhaustive"] = False
    chk.cov["rule"] = ("one evaluation = one instance of a law (two queries through the real tool, compared by TLC in F_p and by base dimensions); operands: "
                       "literals over the whole vocabulary and every usable shipped fact at least once; non-trivial = an instance with a fact or with a "
                       "compound result unit, distinct by instance text; instances whose two sides both fail (incompatible operands) are not counted as decided")
    chk.assumptions += ["per-unit factors are the ones the tool itself exhibits", "facts on offset scales are not used as operands"]


def replay(chk, case):
    vlib.build_harness("release")
    observed, _ = lang.observed_scales("c13-observed")
    l, r = case["text"].split("  =?=  ")
    run_instances(chk, [{"law": case["law"], "lhs": l, "rhs": r, "facts": 0}], "c13-replayed", observed)
